"""shared discovery helpers: panic-only error paths, `?` edges"""
from facts import cn, callee, cname, roots, op_local, taint, arg_hits, base_ident


def question_edges(f, call_block):
    """for `x = call(..)?`: returns (continue_target, break_target) of the `?` on the call's result, or None"""
    t = f.blocks[call_block]["t"]
    d = t.get("dest")
    if not d or len(d) != 1 or "to" not in t:
        return None
    T, _, _ = taint(f, d[0])
    for bb, tt in f.calls():
        if not cn(tt).endswith("::branch") or not arg_hits(tt, T) or len(tt["dest"]) != 1 or "to" not in tt:
            continue
        res = tt["dest"][0]
        for sb in f.reach_from([tt["to"]]):
            st = f.blocks[sb]["t"]
            if st["t"] != "switch":
                continue
            l = op_local(st["o"])
            dd = f.single_def(l) if l is not None else None
            if dd and dd[1] != "t" and dd[2].get("k") == "discr" and dd[2]["p"] == [res]:
                cont = st["tgts"][st["vals"].index("0")] if "0" in st["vals"] else st["tgts"][-1]
                brk = st["tgts"][st["vals"].index("1")] if "1" in st["vals"] else st["tgts"][-1]
                return cont, brk
    return None


def _err_payload_is_panic(f, local, depth=0):
    """does the JsError in `local` always come from PanicError::new (through into/from)?"""
    rs = roots(f, local)
    if not rs:
        return False
    for r in rs:
        if r[0] != "call":
            return False
        c = cn(r[2])
        if c in ("PanicError::new", "PanicError::with_source"):
            continue
        if c.endswith(("::into", "::from")) and r[2]["args"] and depth < 4:
            l = op_local(r[2]["args"][0])
            if l is None or not _err_payload_is_panic(f, l, depth + 1):
                return False
            continue
        return False
    return True


def panic_only_fns(db):
    """functions returning Result whose every Err is an internal PanicError (invariant violation)"""
    cache = getattr(db, "_panic_only", None)
    if cache is not None:
        return cache
    P = set()
    for _ in range(3):
        for f in db.fns.values():
            if f.id in P or not f.mentions("JsError") or not (f.mentions("PanicError") or f.mentions("js_expect")):
                continue
            if not f.locals or base_ident(f.locals[0]) != "Result" or "JsError" not in f.locals[0]:
                continue
            ok = True
            found = False
            for b in f.reachable():
                for s in f.blocks[b]["s"]:
                    if s["p"] == [0] and s["r"].get("k") == "agg" and s["r"].get("variant") == "Err":
                        found = True
                        l = op_local(s["r"]["ops"][0]) if s["r"]["ops"] else None
                        if l is None or not _err_payload_is_panic(f, l):
                            ok = False
                t = f.blocks[b]["t"]
                if t["t"] == "call" and t["dest"] == [0]:
                    c = cn(t)
                    if c.endswith("from_residual"):
                        found = True
                        # residual of a `?`: fine only if every `?` in the function is on a panic-only callee
                        for bb, tt in f.calls():
                            if cn(tt).endswith("::branch") and tt["args"]:
                                l = op_local(tt["args"][0])
                                for r in (roots(f, l) if l is not None else []):
                                    if not (r[0] == "call" and (cn(r[2]).endswith("::js_expect") or callee(r[2]) in P)):
                                        ok = False
                    else:
                        ok = False   # tail call of another fallible function
            if ok and found:
                P.add(f.id)
    db._panic_only = P
    return P


def panic_blocks(db, f):
    """blocks entered only when an internal invariant failed (Err edge of `js_expect(..)?` or of a
    panic-only callee): paths through them are C02's business, not a balance violation"""
    P = panic_only_fns(db)
    out = set()
    for b, t in f.calls():
        c = cn(t)
        if c.endswith("::js_expect") or callee(t) in P:
            q = question_edges(f, b)
            if q:
                out.add(q[1])
    # explicit construction of a PanicError (e.g. `return CompletionRecord::Throw(PanicError::new(..).into())`)
    for b, t in f.calls():
        if cn(t) in ("PanicError::new", "PanicError::with_source"):
            out.add(b)
    for b in f.reachable():
        for s in f.blocks[b]["s"]:
            if s["p"] == [0] and s["r"].get("k") == "agg" and s["r"].get("variant") == "Err" and s["r"]["ops"]:
                l = op_local(s["r"]["ops"][0])
                if l is not None and _err_payload_is_panic(f, l):
                    out.add(b)
    return out


def is_coroutine(f):
    return bool(f.locals) and base_ident(f.locals[0]) == "Poll"


def suspend_blocks(f):
    """`ret` blocks of a coroutine body that return Poll::Pending (a suspension, not an exit)"""
    out = set()
    if not is_coroutine(f):
        return out
    for b in f.reachable():
        if f.blocks[b]["t"]["t"] != "ret":
            continue
        for s in f.blocks[b]["s"]:
            if s["p"] == [0] and s["r"].get("k") == "agg" and s["r"].get("variant") == "Pending":
                out.add(b)
    return out


def coroutine_entry(f):
    """first block of the un-resumed state of a coroutine body (else 0)"""
    if not is_coroutine(f):
        return 0
    t = f.blocks[0]["t"]
    if t["t"] == "switch" and "0" in t["vals"]:
        return t["tgts"][t["vals"].index("0")]
    return 0
