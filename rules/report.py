"""Obligation bookkeeping, known findings, evidence + VIOLATION output."""
import json
import os
import re
import time

VERIF = os.path.dirname(os.path.dirname(os.path.abspath(__file__)))


def load_known():
    """known_findings.txt: lines
         finding: property=Cxx key=<exact key> :: <what fails>
         fixed:   property=Cxx <commit> <what failed>      (suppresses nothing)
    """
    kn = {}
    p = os.path.join(VERIF, "known_findings.txt")
    if not os.path.exists(p):
        return kn
    for line in open(p):
        line = line.strip()
        if not line or line.startswith("#"):
            continue
        m = re.match(r"finding:\s+property=(C\d+)\s+key=(\S+)\s+::\s+(.*)$", line)
        if m:
            kn[(m.group(1), m.group(2))] = m.group(3)
    return kn


class Report:
    def __init__(self, prop, tier, explanation):
        self.prop = prop
        self.tier = tier
        self.explanation = explanation
        self.t0 = time.time()
        self.obligations = []      # (rule, key, ok, detail)
        self.violations = []       # (rule, key, message, detail-lines)
        self.notes = []
        self.analysed = {}
        self.assumptions = []
        self.rules = {}            # rule id -> text
        self._keys = {}
        self.soft_floors = False   # secondary configurations: a lower instance count is expected, not an anchor loss

    def rule(self, rid, text):
        self.rules[rid] = text

    def _key(self, rule, key):
        """instance key: no line numbers, no closure ordinals; duplicates get #n"""
        key = re.sub(r"\{closure#\d+\}", "{closure}", f"{rule}:{key}")
        n = self._keys.get(key, 0) + 1
        self._keys[key] = n
        return key if n == 1 else f"{key}#{n}"

    def ob(self, rule, key, ok, msg="", detail=None, loc=None):
        """record one obligation; a failed one becomes a violation"""
        key = self._key(rule, key)
        self.obligations.append((rule, key, bool(ok), loc or ""))
        if not ok:
            self.violations.append((rule, key, msg, detail or [], loc))
        return ok

    def violation(self, rule, key, msg, detail=None, loc=None):
        key = self._key(rule, key)
        self.obligations.append((rule, key, False, loc or ""))
        self.violations.append((rule, key, msg, detail or [], loc))

    def floor(self, rule, what, count, minimum):
        """fail closed when a rule matches fewer instances than were counted by hand"""
        self.analysed[f"{rule}.{what}"] = count
        if count < minimum and self.soft_floors:
            self.notes.append(f"{rule}: {what} = {count} (< {minimum}) in this secondary configuration")
            return True
        if count < minimum:
            self.violations.append((rule, f"{rule}:floor:{what}",
                                    f"rule instance count fell below the audited floor: {what} = {count} < {minimum} "
                                    f"(anchor renamed/removed? the rule would pass vacuously)", [], None))
            self.obligations.append((rule, f"{rule}:floor:{what}", False, ""))
        return count >= minimum

    def anchor(self, rule, what, found):
        if not found:
            self.violations.append((rule, f"{rule}:anchor:{what}", f"anchor missing: {what}", [], None))
            self.obligations.append((rule, f"{rule}:anchor:{what}", False, ""))
        return bool(found)

    def note(self, msg):
        self.notes.append(msg)

    def absorb(self, other, tag):
        """merge the report of a secondary configuration: instances already seen under the same key are dropped,
        new ones are kept with the configuration tag"""
        mine = {k for _, k, _, _ in self.obligations}
        for rule, key, ok, loc in other.obligations:
            if key in mine:
                continue
            self.obligations.append((rule, f"{key}@{tag}", ok, loc))
        vk = {v[1] for v in self.violations}
        for rule, key, msg, detail, loc in other.violations:
            if key in vk or key in mine:
                continue
            self.violations.append((rule, f"{key}@{tag}", f"[configuration {tag}] {msg}", detail, loc))
        for k, v in other.analysed.items():
            self.analysed[f"{tag}:{k}"] = v
        self.notes += [f"[{tag}] {n}" for n in other.notes]

    # ------------------------------------------------------------------ output
    def finish(self, db_meta, seed=0):
        known = load_known()
        outdir = os.path.join(VERIF, "out", self.prop)
        os.makedirs(outdir, exist_ok=True)
        for f in os.listdir(outdir):
            os.unlink(os.path.join(outdir, f))
        new = 0
        kf = 0
        seen = set()
        for rule, key, msg, detail, loc in self.violations:
            if key in seen:
                continue
            seen.add(key)
            if (self.prop, key) in known:
                print(f"KNOWN-FINDING: property={self.prop} {key} :: {known[(self.prop, key)]}")
                kf += 1
                continue
            new += 1
            fn = re.sub(r"[^A-Za-z0-9_.-]+", "_", key)[:150] + ".txt"
            path = os.path.join(outdir, fn)
            with open(path, "w") as f:
                f.write(f"property: {self.prop}\nrule: {rule} — {self.rules.get(rule, '')}\nkey: {key}\n")
                if loc:
                    f.write(f"location: {loc}\n")
                f.write(f"violation: {msg}\n")
                for d in detail:
                    f.write(f"  {d}\n")
                f.write(f"tree: {db_meta.get('tree')}\n")
            print(f"{self.prop} {rule}: {msg}" + (f"  [{loc}]" if loc else ""))
            print(f"VIOLATION property={self.prop} replay={path}")
        for n in self.notes:
            print(f"NOTE {self.prop}: {n}")
        total = len(self.obligations)
        distinct = len({k for _, k, _, _ in self.obligations})
        okc = sum(1 for _, _, ok, _ in self.obligations if ok)
        per_rule = {}
        for r, k, ok, _ in self.obligations:
            a = per_rule.setdefault(r, [0, 0])
            a[0] += 1
            a[1] += 1 if ok else 0
        samples = []
        per_rule_seen = {}
        for r, k, ok, loc in self.obligations:
            if per_rule_seen.get(r, 0) < 3:
                per_rule_seen[r] = per_rule_seen.get(r, 0) + 1
                samples.append({"rule": r, "instance": k, "holds": ok, "at": loc})
        ev = {
            "property_id": self.prop,
            "tier": self.tier,
            "seed": seed,
            "level": "other",
            "coverage": {
                "explanation": self.explanation,
                "evaluations": total,
                "distinct_nontrivial": distinct,
                "rule": "one evaluation = one rule instance (call site / function / type / field) that carried an "
                        "obligation; distinct by instance key rule:function:site",
                "obligations": total,
                "discharged": okc,
                "known_findings_matched": kf,
                "samples": samples,
                "per_rule": {r: {"instances": v[0], "hold": v[1], "text": self.rules.get(r, "")}
                             for r, v in sorted(per_rule.items())},
                "analysed": self.analysed,
                "bodies_per_crate": db_meta.get("bodies"),
                "tree_hash": db_meta.get("tree"),
                "exhaustive": True,
            },
            "assumptions": self.assumptions,
            "wall_s": round(time.time() - self.t0, 2),
            "violations": new,
        }
        os.makedirs(os.path.join(VERIF, "evidence"), exist_ok=True)
        with open(os.path.join(VERIF, "evidence", f"{self.prop}.json"), "w") as f:
            json.dump(ev, f, indent=1)
        print(f"{self.prop}: {total} rule instances, {okc} hold, {kf} known finding(s), {new} new violation(s) "
              f"[{ev['wall_s']} s]")
        return 1 if new else 0
