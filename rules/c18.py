"""C18 — JSON.parse / JSON.stringify implement exactly the JSON grammar and value mapping.   (thin)

Decided clause:
  R1  JSON.parse evaluates a text only after an independent ECMA-404 recogniser accepted it: in Json::parse the calls of
      Parser::parse_script_with_source and Context::run are dominated by the Ok edge of serde_json::from_str on the
      same text, the parser is put into JSON mode (set_json_parse) before parsing, and the ByteCompiler is built with
      json_parse = true
Not decided: the accepted language itself, the value mapping, everything about JSON.stringify.
"""
from facts import (cn, callee, cname, roots, op_local, taint, arg_hits, place_fields, provenance)

CRATES = ["boa_engine"]
EXPLANATION = (
    "Dominance rule over the MIR of boa_engine::builtins::json::Json::parse: the script parser and the VM are reached "
    "only on the Ok edge of the serde_json pre-validation of the same string, after set_json_parse, with the "
    "compiler's json_parse flag constant true. One function, four obligations; holds for every input text because "
    "this is the only path from JSON.parse to evaluation. The accepted language and JSON.stringify are not decided.")


def run(db, rep, tier):
    rep.rule("R1", "Json::parse: ECMA-404 pre-validation (serde_json::from_str == Ok) dominates parsing and evaluation; JSON "
                   "parse mode is set; the compiler runs in json_parse mode")
    fs = [f for f in db.fns.values() if cname(f.id) == "Json::parse" and f.id.startswith("boa_engine::builtins::json")]
    if not rep.anchor("R1", "Json::parse", fs):
        return
    f = fs[0]
    val = [(b, t) for b, t in f.calls() if cn(t).endswith("::from_str") and "serde_json" in (callee(t) or "")]
    if not rep.anchor("R1", "serde_json::from_str in Json::parse", val):
        return
    vb, vt = val[0]
    # the discriminant switch on its result
    res = vt["dest"][0]
    T, _, _ = taint(f, res)
    err_t = ok_t = sb_ = None
    for sb in f.reach_from([vt["to"]]):
        st = f.blocks[sb]["t"]
        if st["t"] != "switch":
            continue
        l = op_local(st["o"])
        d = f.single_def(l) if l is not None else None
        if d and d[1] != "t" and d[2].get("k") == "discr" and d[2]["p"][0] in T:
            cases = dict(zip(st["vals"], st["tgts"]))
            err_t = cases.get("1", st["tgts"][-1])
            ok_t = cases.get("0", st["tgts"][-1])
            sb_ = sb
            break
    if not rep.anchor("R1", "Result test on the validation outcome", err_t is not None):
        return
    errside = f.reach_from([err_t], avoid={sb_})
    # same string: the validated &str and the formatted script derive from the same local
    sensitive = [(b, cn(t)) for b, t in f.calls() if cn(t) in ("Parser::parse_script_with_source", "Context::run",
                                                               "Parser::parse_script", "ByteCompiler::new")]
    rep.floor("R1", "gated calls in Json::parse", len(sensitive), 3)
    for i, (b, c) in enumerate(sorted(sensitive)):
        ok = f.dominates(vb, b) and b not in errside
        rep.ob("R1", f"Json::parse:{c}:after-validation", ok,
               f"Json::parse reaches {c} ({f.loc(b)}) without the text having passed serde_json::from_str — text that is "
               f"JavaScript but not JSON (e.g. `1;alert()` shapes, comments, single quotes) would be evaluated", loc=f.loc(b))
    sj = [b for b, t in f.calls() if cn(t) == "Parser::set_json_parse"]
    ps = [b for b, c in sensitive if c.startswith("Parser::parse")]
    rep.ob("R1", "Json::parse:set_json_parse-before-parse", bool(sj) and all(f.dominates(sj[0], p) for p in ps),
           "Json::parse no longer puts the parser into JSON mode before parsing (`__proto__` would become a prototype "
           "setter, duplicate-key and escape handling would follow script rules)", loc=f.span)
    bc = [(b, t) for b, t in f.calls() if cn(t) == "ByteCompiler::new"]
    ok = False
    if bc:
        t = bc[0][1]
        # signature: (name, strict, json_parse, ...)
        a = t["args"][2] if len(t["args"]) > 2 else None
        ok = a is not None and a[0] == "k" and a[1].get("v") == "1"
        if a is not None and a[0] != "k":
            l = op_local(a)
            rs = roots(f, l) if l is not None else []
            ok = bool(rs) and all(r[0] == "const" and r[1].get("v") == "1" for r in rs)
    rep.ob("R1", "Json::parse:compiler-json-mode", ok,
           "Json::parse builds its ByteCompiler with json_parse != true (object literals would get __proto__ semantics)",
           loc=f.span)
    # the validated string and the evaluated script are the same text
    s_arg = vt["args"][0] if vt["args"] else None
    same = False
    if s_arg is not None and op_local(s_arg) is not None:
        src = provenance(f, op_local(s_arg))
        user = {l for l in src if f.var_name(l)} or src
        # format!("({json_string});") reads the same String local
        for b, t in f.calls():
            if cn(t).endswith("::new_display"):
                for a in t["args"]:
                    la = op_local(a)
                    if la is not None and provenance(f, la) & user:
                        same = True
    rep.ob("R1", "Json::parse:same-text", same,
           "Json::parse validates one string and evaluates another (the script text is no longer built from the validated "
           "json_string)", loc=f.span)
