"""C18 — JSON.parse / JSON.stringify implement exactly the JSON grammar and value mapping.   (thin)

Decided clause:
  R1  JSON.parse evaluates a text only after an independent ECMA-404 recogniser accepted it: in Json::parse the calls of
      Parser::parse_script_with_source and Context::run are dominated by the Ok edge of serde_json::from_str on the
      same text, the parser is put into JSON mode (set_json_parse) before parsing, and the ByteCompiler is built with
      json_parse = true
  R2  JSON.stringify's string quoting emits only escapes of the JSON grammar: in Json::quote_json_string every sequence
      appended to the product that starts with a backslash is either a constant two-unit escape whose letter is one of
      " \\ / b f n r t, or `\\u` followed by exactly four to_hex_digit results; an escape letter taken from a constant
      table is accepted only if every entry of the table is such a letter (the writer's table ⊆ the grammar's table)
  R3  JSON numbers (lexed by boa_parser::lexer::number, like every numeric literal) get their value only from
      correctly rounding library conversions (fast_float2, integer parsing, BigInt -> f64): the module performs no
      floating-point arithmetic on partial results — a digit-by-digit `acc * 10.0 + d` rounds at every step and is one
      ulp off for about a quarter of the 17-digit integers
Not decided: the accepted language itself, the value mapping, the rest of JSON.stringify.
"""
from facts import (cn, callee, cname, roots, op_local, taint, arg_hits, place_fields, provenance)

CRATES = ["boa_engine", "boa_parser"]
EXPLANATION = (
    "Dominance rule over the MIR of boa_engine::builtins::json::Json::parse: the script parser and the VM are reached "
    "only on the Ok edge of the serde_json pre-validation of the same string, after set_json_parse, with the "
    "compiler's json_parse flag constant true. One function, four obligations; holds for every input text because "
    "this is the only path from JSON.parse to evaluation. The accepted language and JSON.stringify are not decided.")


JSON_ESCAPE_LETTERS = {0x22, 0x5C, 0x2F, 0x62, 0x66, 0x6E, 0x72, 0x74}   # ECMA-404 §9: \" \\ \/ \b \f \n \r \t


def _unit(db, f, o, depth=0):
    """classify one u16 operand: ('c', value) | ('hex',) | ('table', [bytes]) | ('enc',) | ('?', why)"""
    if o[0] == "k":
        v = o[1].get("v")
        return ("c", int(v)) if v is not None else ("?", "opaque constant")
    l = op_local(o)
    if l is None:
        return ("?", "not a local")
    rs = roots(f, l)
    if len(rs) != 1:
        return ("?", f"{len(rs)} reaching definitions")
    r = rs[0]
    if r[0] == "const":
        v = r[1].get("v")
        return ("c", int(v)) if v is not None else ("?", "opaque constant")
    if r[0] == "rv" and r[2].get("k") == "cast" and depth < 4:
        return _unit(db, f, r[2]["o"], depth + 1)
    if r[0] == "call":
        c = cn(r[2])
        if c.endswith("to_hex_digit"):
            return ("hex",)
        if c.endswith("::from") and r[2]["args"] and depth < 4:
            return _unit(db, f, r[2]["args"][0], depth + 1)
        return ("?", "result of " + c)
    if r[0] == "place":
        # indexing into a constant table: every entry must be an escape letter
        base = r[1][0]
        for rr in roots(f, base):
            if rr[0] == "const" and (rr[1].get("bytes") is not None or rr[1].get("c") or rr[1].get("def")):
                tb = _const_units(db, rr[1])
                if tb is not None:
                    return ("table", tb)
        return ("?", "read through a place that is not a constant table")
    return ("?", r[0])


def _const_units(db, k):
    """the elements of a constant array / byte string (from the promoted or const body), or None"""
    if k.get("bytes") is not None:
        b = k["bytes"]
        return list(bytes.fromhex(b)) if isinstance(b, str) else list(b)
    cid = k.get("c")
    if isinstance(cid, str) and cid.startswith('b"') and cid.endswith('"'):
        import ast
        try:
            return list(ast.literal_eval(cid))      # byte-string literal as printed by rustc
        except (ValueError, SyntaxError):
            return None
    g = db.fns.get(cid) if cid else None
    if g is None:
        return None
    for b in g.reachable():
        for st in g.blocks[b]["s"]:
            r = st["r"]
            if r.get("k") == "agg" and r.get("ak") == "array":
                out = []
                for o in r["ops"]:
                    if o[0] != "k" or o[1].get("v") is None:
                        return None
                    out.append(int(o[1]["v"]))
                return out
            if r.get("k") == "use" and r["o"][0] == "k" and r["o"][1] is not k:
                return _const_units(db, r["o"][1])
    return None


def _sequence(db, f, l, depth=0):
    """the units of the slice/array in local l: (units | None, why)"""
    rs = roots(f, l)
    if len(rs) != 1:
        return None, f"{len(rs)} reaching definitions"
    r = rs[0]
    if r[0] == "const":
        tb = _const_units(db, r[1])
        return ([("c", v) for v in tb], None) if tb is not None else (None, "constant whose elements are not visible")
    if r[0] == "rv" and r[2].get("k") == "agg" and r[2].get("ak") == "array":
        return [_unit(db, f, o) for o in r[2]["ops"]], None
    if depth < 5:
        if r[0] == "rv" and r[2].get("k") == "cast" and op_local(r[2]["o"]) is not None:
            return _sequence(db, f, op_local(r[2]["o"]), depth + 1)
        if r[0] == "call" and cn(r[2]).split("::")[-1] in ("as_slice", "deref", "borrow", "as_ref") and r[2]["args"] \
                and op_local(r[2]["args"][0]) is not None:
            return _sequence(db, f, op_local(r[2]["args"][0]), depth + 1)
    if r[0] == "call" and cn(r[2]).endswith("encode_utf16"):
        return [("enc",)], None
    return None, f"appended value comes from {r[0]} {cn(r[2]) if r[0] == 'call' else r[2].get('k') if r[0] == 'rv' else ''}"


def r2(db, rep):
    rep.rule("R2", "Json::quote_json_string appends only JSON escapes: a constant `\\x` with x in \" \\ / b f n r t, or `\\u` + four "
                   "hex digits; escape letters from a table only if the whole table is within that set")
    fs = [f for f in db.fns.values() if cname(f.id) == "Json::quote_json_string" and f.id.startswith("boa_engine::builtins::json")
          and "promoted" not in f.id and "{closure" not in f.id]
    if not rep.anchor("R2", "Json::quote_json_string", fs):
        return
    f = fs[0]
    n = 0
    for b, t in f.calls():
        c = cn(t)
        if c not in ("Vec::extend_from_slice", "Vec::push", "Vec::extend", "Vec::insert") or "u16" not in (t.get("g") or ""):
            continue
        if len(t["args"]) < 2:
            continue
        units = None
        why = None
        if c == "Vec::push":
            units = [_unit(db, f, t["args"][1])]
        else:
            l = op_local(t["args"][1])
            units, why = _sequence(db, f, l) if l is not None else (None, "not a local")
        n += 1
        key = f"quote_json_string:append:{n - 1}"
        if units is None:
            rep.ob("R2", key + ":recognised", False,
                   f"Json::quote_json_string appends a sequence the rule cannot read ({why}) at {f.loc(b)}", loc=f.loc(b))
            continue
        ok = True
        msg = ""
        if units and units[0] == ("c", 0x5C):
            rest = units[1:]
            if len(rest) == 1 and rest[0][0] == "c":
                ok = rest[0][1] in JSON_ESCAPE_LETTERS
                msg = f"emits the escape `\\{chr(rest[0][1])}`, which is not a JSON escape"
            elif len(rest) == 1 and rest[0][0] == "table":
                bad = [x for x in rest[0][1] if x not in JSON_ESCAPE_LETTERS]
                ok = not bad
                msg = f"takes the escape letter from a table containing {[chr(x) for x in bad]}, which are not JSON escapes"
            elif len(rest) == 5 and rest[0] == ("c", 0x75) and all(u == ("hex",) for u in rest[1:]):
                ok = True
            else:
                ok = False
                msg = f"emits a backslash followed by {rest}, which is neither a two-character JSON escape nor \\uXXXX"
        elif any(u == ("c", 0x5C) for u in units):
            ok = False
            msg = "emits a backslash in the middle of a sequence"
        elif any(u[0] == "?" for u in units):
            ok = False
            msg = f"appends units the rule cannot classify: {units}"
        rep.ob("R2", key + ":json-escape", ok,
               f"Json::quote_json_string {msg} ({f.loc(b)}): JSON.stringify output is rejected by JSON.parse and by any "
               f"independent JSON parser", loc=f.loc(b))
    rep.floor("R2", "appends to the product in quote_json_string", n, 12)


def r3(db, rep):
    rep.rule("R3", "the number lexer computes no literal value by floating-point arithmetic: no f64/f32 Add / Sub / Mul / Div "
                   "in boa_parser::lexer::number (values come from fast_float2::parse, from_str_radix and BigInt::to_f64)")
    scanned = 0
    n = 0
    convs = 0
    for f in db.fns.values():
        if f.krate != "boa_parser" or "lexer::number" not in f.id or "::tests" in f.id:
            continue
        scanned += 1
        k = 0
        for b, t in f.calls():
            c = callee(t) or ""
            if c.startswith("fast_float2::") or c.endswith("from_str_radix") or c.endswith("to_f64"):
                convs += 1
        for b in sorted(f.reachable()):
            for st in f.blocks[b]["s"]:
                r = st["r"]
                if r.get("k") in ("bin", "checked") and r.get("ty") in ("f64", "f32") and \
                        str(r.get("op", "")).startswith(("Add", "Sub", "Mul", "Div", "Rem")):
                    n += 1
                    rep.ob("R3", f"{cname(f.id)}:float-arithmetic:{k}", False,
                           f"{cname(f.id)} computes with floats ({r['op']} at {f.file}:{st.get('ln')}) while lexing a number: every "
                           f"step rounds, so the literal's value is not the correctly rounded one (JSON.parse(\"92030920993190389\") "
                           f"gives …400 instead of …380)", loc=f"{f.file}:{st.get('ln')}")
                    k += 1
    rep.analysed["R3.float arithmetic in the number lexer"] = n
    rep.floor("R3", "functions of boa_parser::lexer::number scanned", scanned, 5)
    rep.floor("R3", "correctly rounding conversion calls in the number lexer", convs, 3)


def run(db, rep, tier):
    r3(db, rep)
    r2(db, rep)
    rep.rule("R1", "Json::parse: ECMA-404 pre-validation (serde_json::from_str == Ok) dominates parsing and evaluation; JSON "
                   "parse mode is set; the compiler runs in json_parse mode")
    fs = [f for f in db.fns.values() if cname(f.id) == "Json::parse" and f.id.startswith("boa_engine::builtins::json")]
    if not rep.anchor("R1", "Json::parse", fs):
        return
    f = fs[0]
    val = [(b, t) for b, t in f.calls() if cn(t).endswith("::from_str") and "serde_json" in (callee(t) or "")]
    if not rep.anchor("R1", "serde_json::from_str in Json::parse", val):
        return
    vb, vt = val[0]
    # the discriminant switch on its result
    res = vt["dest"][0]
    T, _, _ = taint(f, res)
    err_t = ok_t = sb_ = None
    for sb in f.reach_from([vt["to"]]):
        st = f.blocks[sb]["t"]
        if st["t"] != "switch":
            continue
        l = op_local(st["o"])
        d = f.single_def(l) if l is not None else None
        if d and d[1] != "t" and d[2].get("k") == "discr" and d[2]["p"][0] in T:
            cases = dict(zip(st["vals"], st["tgts"]))
            err_t = cases.get("1", st["tgts"][-1])
            ok_t = cases.get("0", st["tgts"][-1])
            sb_ = sb
            break
    if not rep.anchor("R1", "Result test on the validation outcome", err_t is not None):
        return
    errside = f.reach_from([err_t], avoid={sb_})
    # same string: the validated &str and the formatted script derive from the same local
    sensitive = [(b, cn(t)) for b, t in f.calls() if cn(t) in ("Parser::parse_script_with_source", "Context::run",
                                                               "Parser::parse_script", "ByteCompiler::new")]
    rep.floor("R1", "gated calls in Json::parse", len(sensitive), 3)
    for i, (b, c) in enumerate(sorted(sensitive)):
        ok = f.dominates(vb, b) and b not in errside
        rep.ob("R1", f"Json::parse:{c}:after-validation", ok,
               f"Json::parse reaches {c} ({f.loc(b)}) without the text having passed serde_json::from_str — text that is "
               f"JavaScript but not JSON (e.g. `1;alert()` shapes, comments, single quotes) would be evaluated", loc=f.loc(b))
    sj = [b for b, t in f.calls() if cn(t) == "Parser::set_json_parse"]
    ps = [b for b, c in sensitive if c.startswith("Parser::parse")]
    rep.ob("R1", "Json::parse:set_json_parse-before-parse", bool(sj) and all(f.dominates(sj[0], p) for p in ps),
           "Json::parse no longer puts the parser into JSON mode before parsing (`__proto__` would become a prototype "
           "setter, duplicate-key and escape handling would follow script rules)", loc=f.span)
    bc = [(b, t) for b, t in f.calls() if cn(t) == "ByteCompiler::new"]
    ok = False
    if bc:
        t = bc[0][1]
        # signature: (name, strict, json_parse, ...)
        a = t["args"][2] if len(t["args"]) > 2 else None
        ok = a is not None and a[0] == "k" and a[1].get("v") == "1"
        if a is not None and a[0] != "k":
            l = op_local(a)
            rs = roots(f, l) if l is not None else []
            ok = bool(rs) and all(r[0] == "const" and r[1].get("v") == "1" for r in rs)
    rep.ob("R1", "Json::parse:compiler-json-mode", ok,
           "Json::parse builds its ByteCompiler with json_parse != true (object literals would get __proto__ semantics)",
           loc=f.span)
    # the validated string and the evaluated script are the same text
    s_arg = vt["args"][0] if vt["args"] else None
    same = False
    if s_arg is not None and op_local(s_arg) is not None:
        src = provenance(f, op_local(s_arg))
        user = {l for l in src if f.var_name(l)} or src
        # format!("({json_string});") reads the same String local
        for b, t in f.calls():
            if cn(t).endswith("::new_display"):
                for a in t["args"]:
                    la = op_local(a)
                    if la is not None and provenance(f, la) & user:
                        same = True
    rep.ob("R1", "Json::parse:same-text", same,
           "Json::parse validates one string and evaluates another (the script text is no longer built from the validated "
           "json_string)", loc=f.span)
