"""C03 — every compiled code block is well-formed on all of its paths.

The code block is whatever the bytecode compiler's *Rust* paths emit, so constraining all of those
paths constrains all programs.  Decided clauses:
  R1  register file: a live (non-persistent) Register is never dropped on a normal path (drop bomb
      = leaked register / wrong frame size), register_count comes from RegisterAllocator::finish
  R2  scope windows: push_declarative_scope/pop_declarative_scope, push_scope/pop_scope paired on all paths
  R3  jump-control stack: push_*_control_info / pop_*_control_info of the same kind paired on all paths
  R4  handlers: every push_handler index reaches exactly one patch_handler on all paths
  R5  binding-reference window: a label created while a GetLocator window is open is patched
      before the window closes (SetNameByLocator)
  R6  labels: every Label produced by a jump emitter is consumed (patched / recorded / returned)
"""
import re
from facts import (call_blocks, cn, callee, cname, roots, op_local, op_place, bool_switch, bool_origin, taint, arg_hits, base_ident,
                   assigns_to_field, place_fields)

CRATES = ["boa_engine", "boa_ast"]
EXPLANATION = (
    "Typestate/pairing rules over the drop-elaborated MIR of every function of boa_engine::bytecompiler "
    "(and every other function that owns a bytecompiler Register): each rule instance is an "
    "acquire site (alloc/push/open/label creation) whose release must be passed on every non-panicking "
    "Rust path. Since every compiled code block is produced by these paths, the rule holds for all "
    "programs. Not decided: operand values, depth agreement along exception edges.")

OPT_LABEL = re.compile(r"(\w+::)*Option<boa_engine::bytecompiler::Label>")
REGTY = "boa_engine::bytecompiler::register::Register"
REG = re.compile(r"bytecompiler::register::Register(?![A-Za-z_])")
CONTAINERS = ("IntoIter", "Vec", "VecDeque", "ThinVec", "SmallVec", "Drain")
CONSUMERS = {"IntoIter::next": "iterator exhausted", "Vec::pop": "vector drained", "VecDeque::pop_front": "deque drained",
             "VecDeque::pop_back": "deque drained", "Iterator::next": "iterator exhausted", "ThinVec::pop": "vector drained"}


# ----------------------------------------------------------------------------- R1
def register_containers(db):
    cont = set()
    changed = True
    while changed:
        changed = False
        for a in db.adts.values():
            if a["id"] in cont or not a["id"].startswith("boa_engine::"):
                continue
            for v in a["variants"]:
                for fl in v["fields"]:
                    ty = fl["ty"]
                    if ty.startswith("&") or ty.startswith("*"):
                        continue
                    if REG.search(ty) or any(re.search(re.escape(c) + r"(?![A-Za-z_])", ty) for c in cont):
                        cont.add(a["id"])
                        changed = True
    return cont


def persistent_producers(db, rep):
    """functions that always return a PERSISTENT register"""
    P = set()
    base = {}
    for f in db.fns.values():
        if f.name not in ("persistent", "alloc_persistent"):
            continue
        c = cname(f.id)
        if c in ("Register::persistent", "RegisterAllocator::alloc_persistent"):
            base[c] = f
    for c in ("Register::persistent", "RegisterAllocator::alloc_persistent"):
        if not rep.anchor("R1", c, c in base):
            return P
    # the producers really set the PERSISTENT flag
    for c, f in base.items():
        refs = False
        for b in f.reachable():
            for s in f.blocks[b]["s"]:
                if "PERSISTENT" in str(s["r"]):
                    refs = True
            t = f.blocks[b]["t"]
            if t["t"] == "call" and "PERSISTENT" in str(t["args"]):
                refs = True
        rep.ob("R1", f"{c}:sets-PERSISTENT", refs,
               f"{c} no longer references RegisterFlags::PERSISTENT: registers it returns would trip the drop bomb",
               loc=f.span)
        P.add(f.id)
    cands = [f for f in db.fns.values() if f.mentions(REGTY) and f.locals and (f.locals[0] == REGTY) and f.id not in P]
    changed = True
    while changed:
        changed = False
        for f in cands:
            if f.id in P:
                continue
            rs = roots(f, 0)
            if rs and all(r[0] == "call" and callee(r[2]) in P for r in rs):
                P.add(f.id)
                changed = True
    return P


def none_edge_guard(f, local, dropb):
    """is `dropb` dominated by the None edge of a pop()/next() on `local`?"""
    for b, t in f.calls():
        c = cn(t)
        if c not in CONSUMERS or not t["args"]:
            continue
        al = op_local(t["args"][0])
        if al is None:
            continue
        visited = set()
        roots(f, al, _seen=visited)
        if local not in visited:
            # the receiver is not a (re)borrow of the dropped container
            continue
        res = op_local(["c", t["dest"]]) if len(t["dest"]) == 1 else None
        if res is None or "to" not in t:
            continue
        # find the switch on discriminant(res)
        for sb in f.reach_from([t["to"]]):
            tt = f.blocks[sb]["t"]
            if tt["t"] != "switch":
                continue
            l = op_local(tt["o"])
            d = f.single_def(l) if l is not None else None
            if not d or d[1] == "t" or d[2].get("k") != "discr" or d[2]["p"] != [res]:
                continue
            if "0" in tt["vals"]:
                nt = tt["tgts"][tt["vals"].index("0")]
            else:
                nt = tt["tgts"][-1]
            if f.dominates(nt, dropb) and f.preds()[nt] == [sb]:
                return CONSUMERS[c]
    return None


def r1(db, rep, prop="C03"):
    rep.rule("R1", "no normal-path Drop of a value holding a non-persistent bytecompiler Register (Register::drop is an "
                   "unconditional unreachable!): moved into dealloc on every path, or provably persistent, or a container "
                   "drained to None; CodeBlock.register_count is written only from RegisterAllocator::finish()")
    cont = register_containers(db)
    rep.analysed["R1.ADTs owning a Register"] = sorted(cont)

    def contains(ty):
        return bool(REG.search(ty)) or any(re.search(re.escape(c) + r"(?![A-Za-z_])", ty) for c in cont)
    P = persistent_producers(db, rep)
    rep.floor("R1", "persistent-register producers", len(P), 5)
    n = 0
    fns_with = 0
    ordinals = {}
    needles = ["register::Register"] + [c.split("::")[-1] for c in cont]
    for f in db.fns.values():
        if not f.id.startswith("boa_engine::") or not any(f.mentions(x) for x in needles):
            continue
        any_here = False
        for b in sorted(f.reachable()):
            t = f.blocks[b]["t"]
            if t["t"] != "drop" or f.is_cleanup(b):
                continue
            ty = t["ty"]
            if not contains(ty) or ty.endswith("RegisterAllocator"):
                continue
            if ty.startswith("&"):
                continue
            any_here = True
            n += 1
            name = cname(f.id)
            p = t["p"]
            k = (name, ty.split("<")[0].split("::")[-1])
            ordinals[k] = ordinals.get(k, -1) + 1
            key = f"{name}:drop-{k[1]}:{ordinals[k]}"
            ok = False
            why = ""
            if ty == REGTY and len(p) == 1:
                rs = roots(f, p[0])
                bad = [r for r in rs if not (r[0] == "call" and callee(r[2]) in P)]
                ok = bool(rs) and not bad
                why = "dropped value may come from: " + ", ".join(
                    (cn(r[2]) if r[0] == "call" else f"{r[0]} {r[1:]}") for r in bad)
            elif base_ident(ty) in CONTAINERS and len(p) == 1:
                g = none_edge_guard(f, p[0], b)
                ok = g is not None
                why = "container of registers dropped without being drained to None on this path"
            else:
                why = f"value of type {ty} owning a Register is dropped"
            vn = f.var_name(p[0])
            rep.ob("R1", key, ok,
                   f"{name}: a live Register can be dropped at {f.loc(b)} (local _{p[0]}{' `' + vn + '`' if vn else ''}: "
                   f"{ty.replace('boa_engine::bytecompiler::', '')}) — forgot register_allocator.dealloc on this path; "
                   f"the drop bomb panics / the frame is mis-sized. {why}", loc=f.loc(b))
        fns_with += any_here
    rep.floor("R1", "register drop obligations", n, 30)
    rep.analysed["R1.functions with register drops"] = fns_with

    # every function that allocates: alloc() results must not be forgotten via mem::forget / ManuallyDrop
    for f in db.fns.values():
        if not f.id.startswith("boa_engine::") or not (f.mentions("mem::forget") or f.mentions("ManuallyDrop")):
            continue
        for b, t in f.calls():
            c = cn(t)
            if c in ("mem::forget", "ManuallyDrop::new") and t["args"]:
                l = op_local(t["args"][0])
                if l is not None and contains(f.locals[l]) and cname(f.id) != "RegisterAllocator::dealloc":
                    rep.violation("R1", f"{cname(f.id)}:forget-register",
                                  f"{cname(f.id)} forgets a Register without deallocating it ({f.loc(b)})", loc=f.loc(b))

    # register_count writer
    writers = []
    for f in db.fns.values():
        if not f.id.startswith("boa_engine::") or not f.mentions("register_count"):
            continue
        for b in sorted(f.reachable()):
            for s in f.blocks[b]["s"]:
                r = s["r"]
                if r.get("k") == "agg" and r.get("adt", "").endswith("vm::code_block::CodeBlock") and "register_count" in r["fields"]:
                    o = r["ops"][r["fields"].index("register_count")]
                    writers.append((f, b, o))
                fl = place_fields(s["p"])
                if fl and fl[-1].endswith("CodeBlock.register_count"):
                    o = r.get("o") if r.get("k") == "use" else None
                    writers.append((f, b, o))
    rep.floor("R1", "CodeBlock.register_count writers", len(writers), 1)
    for i, (f, b, o) in enumerate(writers):
        ok = False
        if o is not None:
            if o[0] == "k":
                ok = o[1].get("v") == "0"   # CodeBlock::new placeholder
            else:
                l = op_local(o)
                rs = roots(f, l) if l is not None else []
                ok = bool(rs) and all((r[0] == "call" and cn(r[2]) == "RegisterAllocator::finish") or
                                      (r[0] == "const" and r[1].get("v") == "0") for r in rs)
        rep.ob("R1", f"{cname(f.id)}:register_count-source:{i}", ok,
               f"{cname(f.id)}: CodeBlock.register_count is written from something other than "
               f"RegisterAllocator::finish() ({f.loc(b)}) — the VM's unchecked register access relies on it", loc=f.loc(b))


# ----------------------------------------------------------------------------- pairing helper
def is_ret(f):
    return lambda b: f.blocks[b]["t"]["t"] == "ret"


def must_release(f, rep, rule, key, acq_block, release_blocks, what, fix):
    """every non-panicking path from the acquire to a return passes a release block"""
    path = f.path_search([], set(release_blocks) - {acq_block}, is_ret(f), via=acq_block)
    return rep.ob(rule, key, path is None,
                  f"{cname(f.id)}: {what} at {f.loc(acq_block)} is not {fix} on every path "
                  f"(a return is reachable without it)",
                  detail=[f"block path to return: {path}",
                          f"lines: {[f.line_of(b) for b in (path or [])]}"], loc=f.loc(acq_block))


def receiver_is_self(f, t):
    """is the call's receiver (arg 0) a reborrow of the function's own `self` (arg 1)?"""
    if not t["args"]:
        return False
    l = op_local(t["args"][0])
    if l is None:
        pl = op_place(t["args"][0])
        l = pl[0] if pl else None
    if l is None:
        return False
    rs = roots(f, l)
    return any(r == ("arg", 1) for r in rs)


# ----------------------------------------------------------------------------- R2
FUNCTION_LIFETIME_SCOPES = {
    # scopes opened by declaration instantiation stay open for the whole function body
    "ByteCompiler::function_declaration_instantiation": "parameter-eval / var / lexical environments of the function being compiled",
    "ByteCompiler::eval_declaration_instantiation": "eval var/lexical environments",
}
ENV_COUNT_WRITERS = {
    "ByteCompiler::push_scope", "ByteCompiler::push_declarative_scope", "ByteCompiler::pop_declarative_scope",
    "ByteCompiler::pop_scope", "ByteCompiler::new",
    "Eval::perform_eval",   # accounts for the environment pushed at run time by perform_eval (audited)
}


def r2(db, rep):
    rep.rule("R2", "scope windows: the Option<Scope> returned by push_declarative_scope reaches pop_declarative_scope, and a "
                   "push_scope/emit_push_scope/emit_push_object_environment on `self` is followed by pop_scope/"
                   "pop_declarative_scope/emit_pop_environment, on every path; current_open_environments_count written only in env.rs")
    npush = 0
    for f in db.fns.values():
        if not f.id.startswith("boa_engine::") or not (f.mentions("push_scope") or f.mentions("push_declarative_scope")
                                                      or f.mentions("emit_push_object_environment")):
            continue
        name = cname(f.id)
        if name in ("ByteCompiler::push_declarative_scope", "ByteCompiler::pop_declarative_scope",
                    "ByteCompiler::push_scope", "ByteCompiler::pop_scope"):
            continue
        ordn = {}
        for b, t in f.calls():
            c = cn(t)
            if c == "ByteCompiler::push_declarative_scope":
                npush += 1
                ordn[c] = ordn.get(c, -1) + 1
                key = f"{name}:push_declarative_scope:{ordn[c]}"
                d = t["dest"]
                T, stores, ret = taint(f, d[0]) if len(d) == 1 else ({d[0]}, [], False)
                pops = [bb for bb, tt in f.calls() if cn(tt) == "ByteCompiler::pop_declarative_scope" and arg_hits(tt, T)]
                drops = [bb for bb, tt in f.calls() if cn(tt) == "mem::drop" and arg_hits(tt, T)]
                if drops and not pops:
                    base = name.split("::{closure")[0]
                    rep.ob("R2", key, base in FUNCTION_LIFETIME_SCOPES,
                           f"{name}: the outer scope returned by push_declarative_scope at {f.loc(b)} is discarded with "
                           f"drop(..) instead of pop_declarative_scope — the environment stays open "
                           f"(allowed only for function-lifetime scopes in declaration instantiation)", loc=f.loc(b))
                    continue
                must_release(f, rep, "R2", key, b, pops, "the scope opened by push_declarative_scope",
                             "closed by pop_declarative_scope(<that outer scope>)")
            elif c == "ByteCompiler::push_scope":
                if not receiver_is_self(f, t):
                    rep.analysed["R2.push_scope on a fresh compiler (function/field scope)"] = \
                        rep.analysed.get("R2.push_scope on a fresh compiler (function/field scope)", 0) + 1
                    continue
                npush += 1
                ordn[c] = ordn.get(c, -1) + 1
                rel = [bb for bb, tt in f.calls() if cn(tt) in ("ByteCompiler::pop_scope", "ByteCompiler::pop_declarative_scope")
                       and receiver_is_self(f, tt)]
                must_release(f, rep, "R2", f"{name}:push_scope:{ordn[c]}", b, rel,
                             "the scope opened by push_scope", "closed by pop_scope / pop_declarative_scope")
            elif c in ("BytecodeEmitter::emit_push_scope", "BytecodeEmitter::emit_push_object_environment"):
                npush += 1
                ordn[c] = ordn.get(c, -1) + 1
                rel = [bb for bb, tt in f.calls() if cn(tt) in ("BytecodeEmitter::emit_pop_environment",
                                                              "ByteCompiler::pop_declarative_scope")]
                must_release(f, rep, "R2", f"{name}:{c.split('::')[1]}:{ordn[c]}", b, rel,
                             f"the run-time environment pushed by {c.split('::')[1]}",
                             "popped by emit_pop_environment / pop_declarative_scope")
    rep.floor("R2", "scope-open sites", npush, 14)
    writers = {}
    for f in db.fns.values():
        if f.id.startswith("boa_engine::") and f.mentions("current_open_environments_count"):
            for b, s in assigns_to_field(f, "ByteCompiler.current_open_environments_count"):
                writers.setdefault(cname(f.id).split("::{closure")[0], f)
            for b in f.reachable():
                for s in f.blocks[b]["s"]:
                    r = s["r"]
                    if r.get("k") == "agg" and r.get("adt", "").endswith("bytecompiler::ByteCompiler") and \
                            "current_open_environments_count" in r.get("fields", []):
                        writers.setdefault(cname(f.id).split("::{closure")[0], f)
    rep.floor("R2", "writers of current_open_environments_count", len(writers), 4)
    for w, f in sorted(writers.items()):
        rep.ob("R2", f"env-count-writer:{w}", w in ENV_COUNT_WRITERS,
               f"{w} writes ByteCompiler.current_open_environments_count outside bytecompiler/env.rs — handler "
               f"environment_count and break/continue PopEnvironments counts are computed from it", loc=f.span)


# ----------------------------------------------------------------------------- R3
CONTROL_PAIRS = {
    "push_labelled_control_info": "pop_labelled_control_info",
    "push_loop_control_info": "pop_loop_control_info",
    "push_loop_control_info_for_of_in_loop": "pop_loop_control_info",
    "push_loop_control_info_for_await_of_loop": "pop_loop_control_info",
    "push_empty_loop_jump_control": "pop_loop_control_info",
    "push_switch_control_info": "pop_switch_control_info",
    "push_try_with_finally_control_info": "pop_try_with_finally_control_info",
}


def r3(db, rep):
    rep.rule("R3", "jump-control stack: every push_*_control_info is followed on every path by the pop_*_control_info of the "
                   "same kind (the pop asserts the kind)")
    n = 0
    for f in db.fns.values():
        if not f.id.startswith("boa_engine::bytecompiler"):
            continue
        name = cname(f.id)
        if f.file.endswith("jump_control.rs"):
            continue
        ordn = {}
        for b, t in f.calls():
            c = cn(t)
            m = c.split("::")[-1]
            if c.startswith("ByteCompiler::") and m in CONTROL_PAIRS:
                n += 1
                ordn[m] = ordn.get(m, -1) + 1
                want = "ByteCompiler::" + CONTROL_PAIRS[m]
                rel = [bb for bb, tt in f.calls() if cn(tt) == want]
                wrong = [bb for bb, tt in f.calls() if cn(tt).startswith("ByteCompiler::pop_") and
                         cn(tt).endswith("_control_info") and cn(tt) != want]
                ok = must_release(f, rep, "R3", f"{name}:{m}:{ordn[m]}", b, rel,
                                  f"the jump-control entry pushed by {m}", f"popped by {CONTROL_PAIRS[m]}")
            elif c == "ByteCompiler::push_control_info":
                rep.violation("R3", f"{name}:raw-push_control_info",
                              f"{name} pushes a raw JumpControlInfo outside jump_control.rs ({f.loc(b)})", loc=f.loc(b))
    rep.floor("R3", "push_*_control_info sites", n, 10)
    # the pops assert the kind they pop
    for popn, kindfn in (("pop_loop_control_info", "is_loop"), ("pop_switch_control_info", "is_switch"),
                         ("pop_labelled_control_info", "is_labelled"),
                         ("pop_try_with_finally_control_info", "is_try_with_finally_block")):
        fs = [f for f in db.fns.values() if cname(f.id) == "ByteCompiler::" + popn]
        if rep.anchor("R3", "ByteCompiler::" + popn, fs):
            f = fs[0]
            pops = [b for b, t in f.calls() if cn(t) == "Vec::pop"]
            rep.ob("R3", f"ByteCompiler::{popn}:pops-one", len(pops) == 1,
                   f"{popn} no longer pops exactly one jump_info entry", loc=f.span)


# ----------------------------------------------------------------------------- R4
def r4(db, rep):
    rep.rule("R4", "handlers: the index returned by push_handler reaches patch_handler on every path, or is stored in "
                   "ByteCompiler.async_handler (patched in ByteCompiler::finish); Handler.environment_count comes from "
                   "current_open_environments_count")
    n = 0
    stored_async = 0
    for f in db.fns.values():
        if not f.id.startswith("boa_engine::") or not f.mentions("push_handler"):
            continue
        name = cname(f.id)
        if name == "ByteCompiler::push_handler":
            continue
        k = -1
        for b, t in f.calls():
            if cn(t) != "ByteCompiler::push_handler":
                continue
            n += 1
            k += 1
            key = f"{name}:push_handler:{k}"
            d = t["dest"]
            T, stores, ret = taint(f, d[0])
            patches = [bb for bb, tt in f.calls() if cn(tt) == "ByteCompiler::patch_handler" and arg_hits(tt, T)]
            to_async = [p for bb, p in stores if any(fl.endswith("ByteCompiler.async_handler") for fl in place_fields(p))]
            if to_async:
                stored_async += 1
                rep.ob("R4", key, True, loc=f.loc(b))
                continue
            if ret and "{closure" in name and not patches:
                # closure handing the index to its caller: the caller must store it in async_handler
                parent = db.fns.get(f.rec.get("parent"))
                okp = False
                if parent is not None:
                    for bb in parent.reachable():
                        for s in parent.blocks[bb]["s"]:
                            if any(fl.endswith("ByteCompiler.async_handler") for fl in place_fields(s["p"])):
                                okp = True
                stored_async += okp
                rep.ob("R4", key, okp,
                       f"{name}: handler index returned from the closure is not stored in async_handler by the caller",
                       loc=f.loc(b))
                continue
            must_release(f, rep, "R4", key, b, patches, "the exception handler opened by push_handler",
                         "closed by patch_handler(<that index>)")
    rep.floor("R4", "push_handler sites", n, 10)
    rep.floor("R4", "handlers parked in async_handler", stored_async, 2)
    # finish(): patches async_handler when it is Some
    fs = [f for f in db.fns.values() if cname(f.id) == "ByteCompiler::finish"]
    if rep.anchor("R4", "ByteCompiler::finish", fs):
        f = fs[0]
        ok = False
        for b in sorted(f.reachable()):
            t = f.blocks[b]["t"]
            if t["t"] != "switch":
                continue
            l = op_local(t["o"])
            d = f.single_def(l) if l is not None else None
            if not d or d[1] == "t" or d[2].get("k") != "discr":
                continue
            if not any(fl.endswith("ByteCompiler.async_handler") for fl in place_fields(d[2]["p"])):
                continue
            some_t = t["tgts"][t["vals"].index("1")] if "1" in t["vals"] else t["tgts"][-1]
            patches = set(bb for bb, tt in f.calls() if cn(tt) == "ByteCompiler::patch_handler")
            path = f.path_avoiding([some_t], patches, is_ret(f))
            if patches and path is None:
                ok = True
        rep.ob("R4", "ByteCompiler::finish:patches-async_handler", ok,
               "ByteCompiler::finish no longer patches the async catch-all handler on the Some(..) path — its range "
               "would end at the dummy address", loc=f.span)
    # Handler.environment_count source
    fs = [f for f in db.fns.values() if cname(f.id) == "ByteCompiler::push_handler"]
    if rep.anchor("R4", "ByteCompiler::push_handler", fs):
        f = fs[0]
        ok = False
        for b in f.reachable():
            for s in f.blocks[b]["s"]:
                r = s["r"]
                if r.get("k") == "agg" and r.get("adt", "").endswith("Handler") and "environment_count" in r["fields"]:
                    o = r["ops"][r["fields"].index("environment_count")]
                    l = op_local(o)
                    rs = roots(f, l) if l is not None else []
                    ok = bool(rs) and all(x[0] == "place" and any(fl.endswith("current_open_environments_count")
                                                                 for fl in place_fields(x[1])) for x in rs)
        rep.ob("R4", "ByteCompiler::push_handler:environment_count-source", ok,
               "push_handler: Handler.environment_count is not the compiler's current_open_environments_count", loc=f.span)


# ----------------------------------------------------------------------------- R5 / R6
OPEN_OPS = ("GetLocator", "GetNameAndLocator")
CLOSE_OPS = ("SetNameByLocator",)
LABEL = "bytecompiler::Label"
PATCHERS = ("ByteCompiler::patch_jump", "ByteCompiler::patch_jump_with_target")


def binding_op(f, t):
    """variant names the BindingAccessOpcode argument of an emit_binding_access call may have"""
    if len(t["args"]) < 2:
        return set()
    o = t["args"][1]
    if o[0] == "k":
        return {o[1].get("c", "").split("::")[-1]}
    l = op_local(o)
    out = set()
    for r in (roots(f, l) if l is not None else []):
        if r[0] == "rv" and r[2].get("k") == "agg":
            out.add(r[2].get("variant"))
        elif r[0] == "const":
            out.add(r[1].get("c", "").split("::")[-1])
        else:
            out.add("?")
    return out


def r5(db, rep):
    rep.rule("R5", "binding-reference window: between emit_binding_access(GetLocator|GetNameAndLocator) and "
                   "emit_binding_access(SetNameByLocator) every path closes the window, and no jump label created inside "
                   "the window is patched after it closed (such a jump skips the close and leaves the locator pushed)")
    nwin = 0
    for f in db.fns.values():
        if not f.id.startswith("boa_engine::bytecompiler"):
            continue
        name = cname(f.id)
        opens, closes = [], []
        for b, t in f.calls():
            if cn(t) == "ByteCompiler::emit_binding_access":
                ops = binding_op(f, t)
                if ops & set(OPEN_OPS):
                    opens.append(b)
                if ops & set(CLOSE_OPS):
                    closes.append(b)
        for i, ob in enumerate(opens):
            nwin += 1
            must_release(f, rep, "R5", f"{name}:window:{i}", ob, closes,
                         "the binding-reference window opened by GetLocator/GetNameAndLocator",
                         "closed by SetNameByLocator")
            # labels created while the window may be open
            inwin = f.reach_from(f.succs(ob), avoid=set(closes))
            after_close = f.reach_from([s_ for c in closes for s_ in f.succs(c)])
            k = -1
            for b, t in f.calls():
                if b not in inwin:
                    continue
                d = t["dest"]
                if len(d) != 1 or LABEL not in f.locals[d[0]]:
                    continue
                k += 1
                T, stores, ret = taint(f, d[0])
                late = []
                for bb, tt in f.calls():
                    if cn(tt) in PATCHERS and arg_hits(tt, T) and bb in after_close:
                        for cb in closes:
                            if f.path_search([], set(), lambda x, bb=bb: x == bb, via=[ob, b, cb]) is not None:
                                late.append(bb)
                                break
                rep.ob("R5", f"{name}:window:{i}:label:{k}", not late,
                       f"{name}: a jump label created at {f.loc(b)} inside the binding-reference window (opened "
                       f"{f.loc(ob)}) is patched at {[f.loc(x) for x in late]} after SetNameByLocator: the jump skips the "
                       f"store and leaves the locator on the binding stack — a later assignment resolves against it",
                       loc=f.loc(b))
    rep.floor("R5", "binding-reference windows", nwin, 2)


def r6(db, rep):
    rep.rule("R6", "every Label produced by a jump emitter is consumed on every path: patched, pushed into a jump record / "
                   "label list, or returned (an unconsumed label is a jump to the dummy address)")
    n = 0
    for f in db.fns.values():
        if not f.id.startswith("boa_engine::bytecompiler"):
            continue
        name = cname(f.id)
        k = -1
        for b, t in f.calls():
            d = t["dest"]
            if len(d) != 1:
                continue
            ty = f.locals[d[0]]
            if ty != "boa_engine::bytecompiler::Label" and not OPT_LABEL.fullmatch(ty) \
                    and ty != "(boa_engine::bytecompiler::Label, boa_engine::bytecompiler::Label)":
                continue
            c = cn(t)
            if not (c.startswith("ByteCompiler::") or "{closure" in c or c in ("FnOnce::call_once", "Fn::call", "FnMut::call_mut")):
                continue
            if c in ("Label::clone",):
                continue
            n += 1
            k += 1
            T, stores, ret = taint(f, d[0])
            if ret:
                rep.ob("R6", f"{name}:label:{k}", True, loc=f.loc(b))
                continue
            users = [bb for bb, tt in f.calls() if bb != b and arg_hits(tt, T)]
            users += [bb for bb, p_ in stores]
            if base_ident(ty) == "Option":
                # `if let Some(label) = label { patch }`: nothing to patch on the None edge
                for sb in f.reachable():
                    tt = f.blocks[sb]["t"]
                    if tt["t"] != "switch":
                        continue
                    l = op_local(tt["o"])
                    dd = f.single_def(l) if l is not None else None
                    if dd and dd[1] != "t" and dd[2].get("k") == "discr" and len(dd[2]["p"]) == 1 and dd[2]["p"][0] in T:
                        users.append(tt["tgts"][tt["vals"].index("0")] if "0" in tt["vals"] else tt["tgts"][-1])
            must_release(f, rep, "R6", f"{name}:label:{k}", b, users, f"the jump label returned by {c.split('::')[-1]}",
                         "patched / recorded")
    rep.floor("R6", "label-producing calls", n, 50)


def r7(db, rep):
    rep.rule("R7", "no operand of a deallocated register is emitted: a RegisterOperand obtained from r.variable()/index() before "
                   "register_allocator.dealloc(r) is not emitted after a later call that may allocate a register (the "
                   "allocator would hand the same slot to someone else)")
    n = 0
    # functions that may allocate a register (call-graph closure over the bytecompiler)
    edges = {}
    for g in db.fns.values():
        if g.id.startswith("boa_engine::bytecompiler"):
            outs = set(callee(t) for _, t in g.calls(reachable_only=False) if callee(t))
            for b_ in range(len(g.blocks)):
                for st in g.blocks[b_]["s"]:
                    if st["r"].get("k") == "agg" and st["r"].get("ak") == "closure":
                        outs.add(st["r"]["def"])
            edges[g.id] = outs
    allocators = {g.id for g in db.fns.values() if cname(g.id) in ("RegisterAllocator::alloc", "RegisterAllocator::alloc_persistent")}
    changed = True
    while changed:
        changed = False
        for gid, outs in edges.items():
            if gid not in allocators and outs & allocators:
                allocators.add(gid)
                changed = True
    rep.analysed["R7.functions that may allocate a register"] = len(allocators)
    for f in db.fns.values():
        if not f.id.startswith("boa_engine::bytecompiler") or not f.mentions("RegisterAllocator::dealloc"):
            continue
        name = cname(f.id)
        deallocs = [(b, t) for b, t in f.calls() if cn(t) == "RegisterAllocator::dealloc" and len(t["args"]) >= 2]
        if not deallocs:
            continue
        # operand producers: Register::variable / index calls, keyed by the register local they read
        prods = []
        for b, t in f.calls():
            if cn(t) in ("Register::variable", "Register::index") and t["args"] and len(t["dest"]) == 1:
                l = op_local(t["args"][0])
                if l is None:
                    continue
                src = set()
                roots(f, l, _seen=src)
                prods.append((b, t["dest"][0], src))
        k = -1
        for db_, dt in deallocs:
            rl = op_local(dt["args"][1])
            if rl is None:
                continue
            regs = set()
            roots(f, rl, _seen=regs)
            regs = {x for x in regs if f.locals[x] == REGTY}
            after = f.reach_from(f.succs(db_))
            for vb, dest, src in prods:
                if not (src & regs):
                    continue
                T, _, _ = taint(f, dest)
                for cb, ct in f.calls():
                    if cb == db_ or cb not in after or not arg_hits(ct, T):
                        continue
                    if cn(ct) in ("Register::variable", "Register::index"):
                        continue
                    # the operand must have been computed before the dealloc on this path (not recomputed after it)
                    if vb in after and f.path_avoiding(f.succs(db_), {vb}, lambda x, cb=cb: x == cb) is None:
                        continue
                    # and the producer must be able to reach the dealloc (it really was computed before)
                    if db_ not in f.reach_from(f.succs(vb)) and vb != db_:
                        continue
                    # harmless unless a register can be allocated in between (the slot is only then reused)
                    between = [ab for ab, at in f.calls() if ab != cb and ab != db_ and callee(at) in allocators
                               and ab in after and cb in f.reach_from(f.succs(ab))]
                    if not between:
                        continue
                    k += 1
                    n += 1
                    rep.ob("R7", f"{name}:use-after-dealloc:{k}", False,
                           f"{name}: {cn(ct)} at {f.loc(cb)} emits the operand of a register that was deallocated at "
                           f"{f.loc(db_)} — the slot may already hold another value", loc=f.loc(cb))
    rep.analysed["R7.violations"] = n
    cnt = sum(1 for f in db.fns.values() if f.id.startswith("boa_engine::bytecompiler") and f.mentions("RegisterAllocator::dealloc"))
    rep.floor("R7", "functions deallocating registers", cnt, 40)
    if n == 0:
        rep.ob("R7", "no-operand-use-after-dealloc", True)


def r8(db, rep):
    rep.rule("R8", "abrupt exits unwind environments entry by entry: every builder of jump-record actions (return / break / "
                   "continue) pushes PopEnvironments{count = jump_info_open_environment_count(i)} for every jump-control "
                   "entry it walks over, on every path of the loop body, and a HandleFinally is followed by a Transfer")
    builders = [f for f in db.fns.values() if f.id.startswith("boa_engine::bytecompiler") and f.locals and
                f.locals[0].endswith("Vec<boa_engine::bytecompiler::jump_control::JumpRecordAction>") and
                "ByteCompiler" in (f.rec.get("self") or "")]
    rep.floor("R8", "jump-record action builders", len(builders), 3)
    for f in builders:
        name = cname(f.id)
        pops = set()
        count_ok = True
        for b in f.reachable():
            for st in f.blocks[b]["s"]:
                r = st["r"]
                if r.get("k") == "agg" and r.get("adt", "").endswith("JumpRecordAction") and r.get("variant") == "PopEnvironments":
                    pops.add(b)
                    o = r["ops"][0] if r["ops"] else None
                    l = op_local(o) if o else None
                    rs = roots(f, l) if l is not None else []
                    if not (rs and all(x[0] == "call" and cn(x[2]) == "ByteCompiler::jump_info_open_environment_count" for x in rs)):
                        count_ok = False
        # the aggregate is built, then pushed: use the push blocks that take it
        nexts = [b for b, t in f.calls() if cn(t).split("::")[-1] == "next" and b in f.reach_from(f.succs(b))]
        if not rep.anchor("R8", f"{name}: loop over jump_info", nexts) or not rep.anchor("R8", f"{name}: PopEnvironments action", pops):
            continue
        N = nexts[0]
        t = f.blocks[N]["t"]
        res = t["dest"][0]
        some_t = None
        for sb in f.reach_from([t["to"]]):
            stt = f.blocks[sb]["t"]
            if stt["t"] != "switch":
                continue
            l = op_local(stt["o"])
            d = f.single_def(l) if l is not None else None
            if d and d[1] != "t" and d[2].get("k") == "discr" and d[2]["p"] == [res]:
                some_t = stt["tgts"][stt["vals"].index("1")] if "1" in stt["vals"] else stt["tgts"][-1]
                break
        if not rep.anchor("R8", f"{name}: Some edge of the jump_info iterator", some_t is not None):
            continue
        path = f.path_avoiding([some_t], pops, lambda x: x == N or f.blocks[x]["t"]["t"] == "ret")
        rep.ob("R8", f"{name}:PopEnvironments-per-entry", path is None,
               f"{name}: a jump-control entry can be passed over without a PopEnvironments action — code after the jump "
               f"(a finally block, the loop head, the code after the loop) then runs with inner environments still "
               f"pushed, and binding locators resolve against the wrong environment", detail=[f"block path: {path}"], loc=f.span)
        rep.ob("R8", f"{name}:PopEnvironments-count-source", count_ok,
               f"{name}: PopEnvironments.count is not jump_info_open_environment_count(i)", loc=f.span)
        # HandleFinally is followed by Transfer
        hf = [b for b in f.reachable() for st in f.blocks[b]["s"] if st["r"].get("k") == "agg" and
              st["r"].get("adt", "").endswith("JumpRecordAction") and st["r"].get("variant") == "HandleFinally"]
        tr = set(b for b in f.reachable() for st in f.blocks[b]["s"] if st["r"].get("k") == "agg" and
                 st["r"].get("adt", "").endswith("JumpRecordAction") and st["r"].get("variant") == "Transfer")
        for i, hb in enumerate(hf):
            p2 = f.path_avoiding(f.succs(hb), tr, lambda x: x == N or f.blocks[x]["t"]["t"] == "ret") if hb not in tr else None
            rep.ob("R8", f"{name}:HandleFinally-then-Transfer:{i}", p2 is None,
                   f"{name}: a HandleFinally action is not followed by the Transfer to its try block's jump control", loc=f.span)


def run(db, rep, tier):
    r1(db, rep)
    r2(db, rep)
    r3(db, rep)
    r4(db, rep)
    r5(db, rep)
    r6(db, rep)
    r7(db, rep)
    r8(db, rep)
    # R9 = C04-R7: scope indices (the static environment depth of every locator) are assigned by passes that agree on
    # which children lie outside a statement's scope
    import c04
    c04.r7(db, rep)
    c04.r7b(db, rep)
    rep.assumptions += [
        "panicking paths (unwind edges, js_expect/expect failures) are outside these rules (they are C02's concern)",
    ]
