"""C20 — evaluation is deterministic and contexts are isolated from each other.

Decided clauses:
  R1  no script value in shared state: the type of every `static` and `thread_local!` of the workspace cannot hold a
      GC edge or a symbol (audited exceptions: the GC heap itself, the agent-wide symbol registry)
  R2  unordered containers: every iteration over a HashMap/HashSet whose order depends on a random seed or on
      addresses (default hasher, or keys hashed by address: Module, JsObject, Gc) is order-insensitive (Trace bodies,
      retain with a predicate), sorted before use, or audited; Fx-hashed value keys are deterministic
  R3  realm swap pairing (= C07-R5) and the writers of a frame's realm
  R4  no ordering by a history-dependent identity: nothing sorts, searches or keys an ordered container by
      boa_interner::Sym (its Ord is the interner index = the order in which this context first saw the identifiers,
      shared by all realms and scripts of the context) or by an address-like key (JsObject, Gc, Module, raw pointers)
  R5  keys that compare equal hash equal: in `impl Hash for JsValue` (the key type of Map / Set, which are hashed with a
      per-table random seed) the Integer32 arm and the Float64 arm feed the hasher through the same Hash impl — the engine
      never normalises floats back to ints, so 7 and 7.0 meet as SameValueZero-equal keys with different tags
  R6  shared counters only count up: every write to a thread-local / static counter cell of boa_engine (Cell<integer>,
      atomics: ids, [[AsyncEvaluationOrder]]) stores the previous value plus a constant or is a fetch_add — a reset makes
      the values handed out depend on what else is pending on the thread, and an ordering key that is no longer unique
      lets the address order of a hash set through a sort
Not decided: byte-identical traces; absence of other address dependence.
"""
import re
from facts import (cn, callee, cname, roots, op_local, taint, arg_hits, place_fields)
import c10
import c07

CRATES = None
EXPLANATION = (
    "Type-reachability over every static / thread_local of the workspace (reusing the GC-edge fixpoint of C10 plus "
    "JsSymbol), and a classification of every iteration call on a hash container in boa_engine/boa_gc/boa_ast/"
    "boa_parser/boa_interner by hasher and key type read from the monomorphic MIR local types. Instances are statics "
    "and iteration call sites. They hold for every program and prior history because shared mutable state and "
    "seed/address-ordered iteration are the only channels these rules close. Not decided: byte-identical traces.")

AUDITED_STATICS = {
    "boa_gc::BOA_GC": "the collector's own heap bookkeeping (thread-local by design; holds boxes, not script-visible state)",
    "boa_engine::builtins::symbol::GLOBAL_SYMBOL_REGISTRY":
        "Symbol.for registry: the specification's GlobalSymbolRegistry is agent-wide; holds symbols and their keys only",
}
SYMBOL = "boa_engine::symbol::JsSymbol"
ITER = {"iter", "iter_mut", "keys", "values", "values_mut", "drain", "into_iter", "retain", "into_keys", "into_values",
        "extract_if"}
HASHT = re.compile(r"(hash::map::HashMap|hash::set::HashSet|hashbrown::map::HashMap|hashbrown::set::HashSet|"
                   r"hashbrown::table::HashTable)<")
ADDRESS_KEYS = ("boa_engine::module::Module", "boa_engine::object::jsobject::JsObject", "boa_gc::pointers::gc::Gc<",
                "*const ", "*mut ", "boa_engine::realm::Realm", "boa_engine::object::shape::")
ORDER_INSENSITIVE = {
    "HostDefined::trace": "GC tracing visits every entry", "HostDefined::trace_non_roots": "GC tracing",
    "HostDefined::run_finalizer": "GC finalisation",
    "HashMap::trace": "GC tracing", "HashMap::trace_non_roots": "GC tracing", "HashMap::run_finalizer": "GC tracing",
    "HashSet::trace": "GC tracing", "HashSet::trace_non_roots": "GC tracing", "HashSet::run_finalizer": "GC tracing",
    "RawWeakMap::retain": "predicate-only retain of dead ephemerons", "RawWeakMap::iter": "exposed to Trace impls only",
    "HashSet::try_into_js": "host conversion of a Rust HashSet: element order is the host's (no script-visible promise)",
    "HashMap::try_into_js": "host conversion of a Rust HashMap: entry order is the host's",
}


def hasher_and_key(ty):
    """('fx'|'seeded', key type string) from a monomorphic container type string"""
    m = HASHT.search(ty)
    if not m:
        return None
    inner = ty[m.end():]
    # first generic argument = key
    depth = 0
    key = ""
    for ch in inner:
        if ch in "<([":
            depth += 1
        elif ch in ">)]":
            if depth == 0:
                break
            depth -= 1
        elif ch == "," and depth == 0:
            break
        key += ch
    fx = "FxBuildHasher" in ty or "FxHasher" in ty
    return ("fx" if fx else "seeded", key.strip())


def r1(db, rep):
    rep.rule("R1", "no static / thread_local of the workspace can hold a script value (GC edge or symbol)")
    env = c10.TypeEnv(db)
    # types with a hand-written non-empty Trace impl count as GC-capable (NaN-boxed value)
    for i in db.impls:
        if i["trait"] == c10.TRACE and i["self_t"][0] == "adt":
            f = None
            for it in i["items"]:
                if it.endswith("::trace") and it in db.fns:
                    f = db.fns[it]
            manual = i["exp"] is None or i["exp"][0] != "Derive"
            if manual and f is not None and any(True for _ in f.calls()):
                env.nonempty_impl.add(i["self_t"][1])
    c10.GC_POINTERS.add(SYMBOL)
    n = 0
    items = [(s, "static") for s in db.statics] + [(c, "thread_local") for c in db.consts if "LocalKey<" in c["ty"]]
    for s, what in items:
        if s["crate"] in ("boa.bin",) or "__RUST_STD_INTERNAL" in s["id"]:
            continue
        n += 1
        w = env.needs(s["t"])
        sid = s["id"]
        if w and sid in AUDITED_STATICS:
            rep.ob("R1", f"{sid}:audited", True, loc=s["span"])
            continue
        rep.ob("R1", sid, not w,
               f"{what} {sid}: {s['ty'][:120]} can hold a script value ({w}) — state shared by every context/realm on the thread; "
               f"one script could observe or affect another's objects", loc=s["span"])
    c10.GC_POINTERS.discard(SYMBOL)
    rep.floor("R1", "statics and thread-locals examined", n, 25)


def r2(db, rep):
    rep.rule("R2", "iteration over a hash container with seed- or address-dependent order is order-insensitive, sorted before "
                   "use, or audited")
    n = 0
    det = 0
    for f in db.fns.values():
        if f.krate not in ("boa_engine", "boa_gc", "boa_ast", "boa_parser", "boa_interner", "boa_string"):
            continue
        if not f.mentions("Hash"):
            continue
        if f.span.endswith("tests.rs") or "/tests" in f.span:
            continue
        name = cname(f.id).split("::{closure")[0]
        k = -1
        for b, t in f.calls():
            c = cn(t)
            m = c.split("::")[-1]
            if m not in ITER or not t["args"]:
                continue
            l = op_local(t["args"][0])
            if l is None:
                continue
            hk = hasher_and_key(f.locals[l])
            if not hk:
                continue
            hasher, key = hk
            addr = any(a in key for a in ADDRESS_KEYS) or key in ("usize",)
            generic = re.fullmatch(r"[A-Z]\w?", key) is not None
            if hasher == "fx" and not addr and not generic:
                det += 1
                continue
            k += 1
            n += 1
            why = None
            if name in ORDER_INSENSITIVE:
                why = ORDER_INSENSITIVE[name]
            elif m == "retain":
                why = "retain(predicate): the surviving set does not depend on visiting order"
            else:
                T = taint(f, t["dest"][0])[0] if len(t["dest"]) == 1 else set()
                for _ in range(3):
                    for bb, tt in f.calls():
                        if arg_hits(tt, T) and len(tt["dest"]) == 1:
                            T |= taint(f, tt["dest"][0])[0]
                sorts = [bb for bb, tt in f.calls() if "sort" in cn(tt).split("::")[-1]]
                if sorts and f.path_avoiding(f.succs(b), set(sorts), lambda x: f.blocks[x]["t"]["t"] == "ret") is None:
                    why = "sorted before use"
            rep.ob("R2", f"{name}:{m}:{k}", why is not None,
                   f"{name}: iterates a {'seeded' if hasher == 'seeded' else 'address-keyed'} hash container "
                   f"({f.locals[l][:90]}) at {f.loc(b)} without sorting — the order differs between processes / allocation "
                   f"histories and can reach script-visible behaviour", loc=f.loc(b))
    rep.analysed["R2.deterministic (Fx-hashed value keys) iteration sites"] = det
    rep.floor("R2", "seed/address-ordered iteration sites", n, 10)
    rep.floor("R2", "hash iteration sites overall", n + det, 35)


def r3(db, rep):
    rep.rule("R3", "a native call that fails restores the caller's realm (swap_realm paired on every path)")
    c07._DB = db
    sub = type(rep)(rep.prop, rep.tier, "")
    c07.r5(db, sub)
    n = 0
    for rule, key, ok, loc in sub.obligations:
        if "swap_realm" in key:
            n += 1
            msg = next((v[2] for v in sub.violations if v[1] == key), "")
            rep.ob("R3", key.split(":", 1)[1], ok, msg, loc=loc)
    rep.floor("R3", "realm swap sites", n, 2)


ORDERING_METHODS = {"sort", "sort_unstable", "sort_by_key", "sort_unstable_by_key", "sort_by_cached_key", "binary_search",
                    "binary_search_by_key", "max", "min", "max_by_key", "min_by_key", "is_sorted", "cmp", "partial_cmp",
                    "select_nth_unstable"}
HISTORY_IDENTITIES = ("boa_interner::sym::Sym", "boa_engine::object::jsobject::JsObject", "boa_gc::pointers::gc::Gc<",
                      "boa_engine::module::Module", "*const ", "*mut ", "boa_engine::realm::Realm")
AUDITED_ORDERINGS = {
    "Sym::partial_cmp": "derived PartialOrd of Sym itself (the definition, not a use)",
    "Sym::cmp": "derived Ord of Sym itself",
}


def _generic_args(g):
    out, depth, cur = [], 0, ""
    for ch in g or "":
        if ch in "<([":
            depth += 1
        elif ch in ">)]":
            depth -= 1
        if ch == "," and depth == 0:
            out.append(cur.strip())
            cur = ""
        else:
            cur += ch
    if cur.strip():
        out.append(cur.strip())
    return out


def r4(db, rep):
    rep.rule("R4", "no sort / binary search / min / max / ordered container keyed by an interner symbol or an address-like "
                   "identity: such an order depends on what the context parsed or allocated before")
    examined = 0
    k = {}
    for f in db.fns.values():
        if f.krate not in ("boa_engine", "boa_ast", "boa_parser", "boa_interner", "boa_gc", "boa_string"):
            continue
        if not (f.mentions("sort") or f.mentions("BTree") or f.mentions("binary_search") or f.mentions("::max") or
                f.mentions("::min") or f.mentions("cmp::Ord")):
            continue
        if f.span.endswith("tests.rs") or "/tests" in f.span or "::tests::" in f.id:
            continue
        name = cname(f.id).split("::{closure")[0]
        for b, t in f.calls():
            c = t.get("rf") or callee(t) or ""
            m = c.split("::")[-1]
            ordered_container = ("btree::map::BTreeMap" in c or "btree::set::BTreeSet" in c) and m in ("insert", "entry", "new",
                                                                                                           "from_iter", "extend")
            if m not in ORDERING_METHODS and not ordered_container:
                continue
            ga = _generic_args(t.get("g"))
            if m.endswith(("_by_key", "_by_cached_key")):
                cand = ga[1:2]            # <T, K, F>: the order is the key's
            elif "<impl [T]>" in c or "slice::" in c or ordered_container or "iter::traits" in c or \
                    m in ("cmp", "partial_cmp", "max", "min"):
                cand = ga[:1]
            else:
                continue
            examined += 1
            hit = [x for x in cand for idt in HISTORY_IDENTITIES
                   if x.replace("&", "").strip() == idt or x.replace("&", "").strip().startswith(idt) or
                   (x.startswith("(") and idt in x)]
            if not hit:
                continue
            if name in AUDITED_ORDERINGS:
                rep.ob("R4", f"{name}:{m}:audited", True, loc=f.loc(b))
                continue
            k[name] = k.get(name, -1) + 1
            rep.ob("R4", f"{name}:{m}:{k[name]}:history-free-order", False,
                   f"{name} orders values of type {hit[0]} with {m} ({f.loc(b)}): for Sym that is the interner index, i.e. the "
                   f"order in which this context first saw the identifiers — the result (e.g. the creation order of global "
                   f"bindings, hence Object.keys(globalThis)) then depends on scripts evaluated earlier, also in other realms",
                   loc=f.loc(b))
    rep.analysed["R4.ordering calls examined"] = examined
    rep.floor("R4", "ordering calls examined (sort/search/min/max/ordered containers)", examined, 40)


def r5(db, rep):
    rep.rule("R5", "Hash for JsValue hashes an int32-tagged and a float-tagged number through the same Hash impl (equal keys "
                   "hash equal; otherwise Map/Set lookups depend on the per-table random seed)")
    fs = [f for f in db.fns.values() if f.id == "boa_engine::value::hash::<impl core::hash::Hash for boa_engine::value::JsValue>::hash"
          or (f.id.endswith("Hash for boa_engine::value::JsValue>::hash") and "{closure" not in f.id)]
    if not rep.anchor("R5", "impl Hash for JsValue", fs):
        return
    f = fs[0]
    adt = next((a for k, a in db.adts.items() if k.endswith("value::variant::JsVariant") or k.endswith("::JsVariant")), None)
    if not rep.anchor("R5", "enum JsVariant", adt):
        return
    sw = None
    for sb in f._rpo():
        tt = f.blocks[sb]["t"]
        if tt["t"] != "switch":
            continue
        l = op_local(tt["o"])
        d = f.single_def(l) if l is not None else None
        if d and d[1] != "t" and d[2].get("k") == "discr" and "JsVariant" in f.locals[d[2]["p"][0]]:
            sw = (sb, tt)
            break
    if not rep.anchor("R5", "match on JsVariant in Hash for JsValue", sw):
        return
    sb, tt = sw
    reach = {}
    for i, v in enumerate(adt["variants"]):
        tgt = tt["tgts"][tt["vals"].index(str(i))] if str(i) in tt["vals"] else tt["tgts"][-1]
        reach[v["name"]] = f.reach_from([tgt], avoid={sb})
    table = {}
    for nm, r in reach.items():
        others = set().union(*[x for m, x in reach.items() if m != nm])
        table[nm] = {(t.get("rf") or callee(t) or "") for b in (r - others) for t in [f.blocks[b]["t"]]
                     if t["t"] == "call" and (callee(t) or "").endswith("::hash") and "Hash" in (callee(t) or "")}
    a, b_ = table.get("Integer32", set()), table.get("Float64", set())
    rep.ob("R5", "JsValue::hash:int-and-float-hash-alike", bool(a) and a == b_,
           f"Hash for JsValue hashes Integer32 through {sorted(a)} but Float64 through {sorted(b_)}: `m.set(7, 1); m.get((7.5) - 0.5)` "
           f"then finds the entry only when the two SipHash results happen to agree for that table's random seed — the same "
           f"program gives different traces in different processes and in two fresh contexts of one process", loc=f.span)


def r6(db, rep):
    from facts import provenance
    rep.rule("R6", "thread-local / static counter cells are only incremented: each Cell::set / replace / store on them writes "
                   "old + constant (or the call is fetch_add)")
    counters = set()
    for st in db.statics:
        ty = st.get("ty", "")
        if st.get("crate") not in (None, "boa_engine") and not st["id"].startswith("boa_engine::"):
            continue
        if not st["id"].startswith("boa_engine::"):
            continue
        if re.search(r"Cell<(u|i)(8|16|32|64|128|size)>", ty) or re.search(r"Atomic(U|I)(8|16|32|64|size)", ty):
            counters.add(st["id"].split("::{constant")[0])
    rep.floor("R6", "counter cells in statics / thread-locals of boa_engine", len(counters), 3)
    mods = {c.rsplit("::", 1)[0] for c in counters}
    mods |= {m.rsplit("::", 1)[0] for m in mods if m.count("::") > 2}
    n = 0
    for f in db.fns.values():
        if not f.id.startswith("boa_engine::") or "::tests" in f.id:
            continue
        if not any(f.id.startswith(m) for m in mods):
            continue
        for b, t in f.calls():
            c = (t.get("rf") or callee(t) or "")
            m = c.split("::")[-1]
            if not (("cell::Cell" in c and m in ("set", "replace")) or ("Atomic" in c and m in ("store", "swap"))):
                continue
            if len(t["args"]) < 2 or not re.search(r"(u|i)(8|16|32|64|128|size)", t.get("g") or c):
                continue
            rl = op_local(t["args"][0])
            rs = roots(f, rl) if rl is not None else []
            shared = any((r[0] == "arg" and "{closure" in f.id) or (r[0] == "const" and (r[1].get("def") or "").split("::{constant")[0] in counters)
                         for r in rs) and not any(r[0] == "place" and any(isinstance(e, str) and e.startswith("f:") for e in r[1]) for r in rs)
            if not shared:
                continue
            n += 1
            vl = op_local(t["args"][1])
            ok = False
            for q in (provenance(f, vl, extra=("checked_add", "wrapping_add", "saturating_add", "branch", "unwrap", "expect",
                                                 "unwrap_or", "ok_or", "ok_or_else")) if vl is not None else ()):
                for bb, i, rr in f.defs().get(q, []):
                    if i == "t" and cn(rr).split("::")[-1] in ("checked_add", "wrapping_add", "saturating_add"):
                        ok = True
                    if i != "t" and isinstance(rr, dict) and rr.get("k") in ("bin", "checked") and str(rr.get("op", "")).startswith("Add"):
                        ok = True
            rep.ob("R6", f"{cname(f.id)}:{m}:counter-only-increments", ok,
                   f"{cname(f.id)} writes a shared counter cell with a value that is not the old value plus a constant "
                   f"({f.loc(b)}): after a reset of the module async-evaluation count, modules that are still pending and new "
                   f"ones get the same [[AsyncEvaluationOrder]]; the sort that hides the address order of the FxHashSet<Module> "
                   f"of ready parents then ties, and the parents run in heap-address order (differs between processes)",
                   loc=f.loc(b))
    rep.floor("R6", "writes to shared counter cells", n, 2)


def run(db, rep, tier):
    r1(db, rep)
    r2(db, rep)
    r3(db, rep)
    r4(db, rep)
    r5(db, rep)
    r6(db, rep)
    rep.assumptions += ["FxHasher is a deterministic function of the key bytes; Sym/u32/JsString keys hash by value"]
