"""C14 — array behaviour is independent of the internal element storage.

Decided clauses:
  R1  hash order never escapes: the iterators over sparse element storage (IndexedProperties::{iter,keys,values},
      PropertyMap::index_property_{keys,values}, index_properties) yield hash order; every consumer outside
      property_map.rs sorts what it collected before using it, or is an audited order-insensitive consumer
  R2  dense fast paths are guarded: get_dense_property / set_dense_property / dense_indexed_properties_mut on an
      object taken from a register or argument are dominated by is_array() (writes additionally by the
      extensibility test); internal fresh arrays are the audited exceptions
  R3  narrowing a double into the packed-int storage is bit exact: every f64→i32 cast in object/property_map.rs is
      justified by a round-trip test on f64::to_bits (in the function or its closures), and no float `==`/`!=` compares
      a double with a value widened back from i32 (that comparison cannot tell -0 from +0, so `a[i] = -0` would be
      stored as +0 in an int-packed array only)
  R4  arrays under construction by the VM (array literals, spread arguments) are filled with define semantics: the
      handlers in vm::opcode::push::array never use the [[Set]]-based Array::push / JsObject::set for an element — a setter
      for an index on Array.prototype must not observe `[...x]` or `f(...x)`, nor leave the internal arguments array
      non-dense (which CallSpread / NewSpread treat as an internal error)
  R5  the array length slot is written directly only when the length does not shrink: a direct store into
      PropertyMap.storage[0] (the `length` of template-shaped arrays) in the array builtins / push opcodes stores old length
      plus a positive constant, or is dominated by an ordering comparison against the old length (shrinking must go
      through ArraySetLength, which deletes the elements at and above the new length)
Not decided: transition correctness of IndexedProperties, results of the Array.prototype methods.
"""
from facts import (cn, callee, cname, roots, op_local, taint, arg_hits, place_fields, bool_switch, bool_origin)

CRATES = ["boa_engine"]
EXPLANATION = (
    "Who-consumes and dominance rules over the MIR of boa_engine: every call of the hash-ordered index iterators and "
    "every call of the dense-storage fast-path accessors outside object/property_map.rs. Instances are call sites; the "
    "rules hold for every operation history because they constrain the only code that can observe the storage kind. "
    "Not decided: IndexedProperties transitions, method results.")

HASH_ORDER = {"IndexedProperties::iter", "IndexedProperties::keys", "IndexedProperties::values",
              "PropertyMap::index_property_keys", "PropertyMap::index_properties", "PropertyMap::index_property_values",
              "IndexedProperties::into_iter"}
ORDER_INSENSITIVE = {
    "object::indexed_storage_type": "debug object ($boa) reporting the storage kind only",
    "object::log_plain_object_compact": "host-side Display of a value (console/debug output formatting)",
    "object::print_obj_value_props": "host-side Display of a value (console/debug output formatting)",
    "JsValue::to_json_inner": "host-side serde_json conversion of a *non-array* object (arrays are walked 0..len); "
                              "integer-keyed getters on plain objects are outside this property",
}
DENSE = {"PropertyMap::get_dense_property": "read", "PropertyMap::set_dense_property": "write",
         "PropertyMap::dense_indexed_properties_mut": "write", "IndexedProperties::push_dense": "write",
         "PropertyMap::to_dense_indexed_properties": "read"}
FRESH_ARRAYS = {
    "PushValueToArray::operation": "array literal under construction: created by PushNewArray in the same expression, not yet visible to script",
    "SuperCallSpread::operation": "arguments array built by the compiler's spread lowering, never exposed",
    "CallEvalSpread::operation": "arguments array built by the compiler's spread lowering, never exposed",
    "CallSpread::operation": "arguments array built by the compiler's spread lowering, never exposed",
    "NewSpread::operation": "arguments array built by the compiler's spread lowering, never exposed",
}


def r1(db, rep):
    rep.rule("R1", "a consumer of the hash-ordered index iterators sorts the collected keys before use (or is audited as "
                   "order-insensitive)")
    n = 0
    for f in db.fns.values():
        if not f.id.startswith("boa_engine::") or not (f.mentions("index_propert") or f.mentions("IndexedProperties")):
            continue
        if f.file.endswith("property_map.rs") or f.span.endswith("tests.rs") or "/tests" in f.span:
            continue
        name = cname(f.id).split("::{closure")[0]
        k = -1
        for b, t in f.calls():
            if cn(t) not in HASH_ORDER:
                continue
            k += 1
            n += 1
            if name in ORDER_INSENSITIVE:
                rep.ob("R1", f"{name}:{cn(t).split('::')[-1]}:{k}:audited", True, loc=f.loc(b))
                continue
            # a sort on data derived from the iterator, on every path to the return
            T, _, _ = taint(f, t["dest"][0]) if len(t["dest"]) == 1 else (set(), [], False)
            # collected vectors are produced by calls taking the iterator: follow one level
            more = set()
            for bb, tt in f.calls():
                if arg_hits(tt, T) and len(tt["dest"]) == 1:
                    more.add(tt["dest"][0])
            for l in list(more):
                T |= taint(f, l)[0]
                for bb, tt in f.calls():
                    if arg_hits(tt, taint(f, l)[0]) and len(tt["dest"]) == 1:
                        T |= taint(f, tt["dest"][0])[0]
            sorts = [bb for bb, tt in f.calls() if "sort" in cn(tt).split("::")[-1] and
                     (arg_hits(tt, T) or _derefs_tainted(f, tt, T))]
            path = f.path_avoiding(f.succs(b), set(sorts), lambda x: f.blocks[x]["t"]["t"] == "ret")
            rep.ob("R1", f"{name}:{cn(t).split('::')[-1]}:{k}", bool(sorts) and path is None,
                   f"{name}: consumes {cn(t)} at {f.loc(b)} (hash order for sparse arrays) without sorting on every path — "
                   f"key order / visiting order would differ between dense and sparse storage of the same array",
                   detail=[f"block path: {path}"], loc=f.loc(b))
    rep.floor("R1", "consumers of hash-ordered index iterators", n, 6)


def _derefs_tainted(f, t, T):
    """sort receivers are usually `&mut *vec` / deref_mut(vec): follow the receiver back"""
    if not t["args"]:
        return False
    l = op_local(t["args"][0])
    if l is None:
        return False
    seen = set()
    roots(f, l, _seen=seen)
    if seen & T:
        return True
    for r in roots(f, l):
        if r[0] == "call" and r[2]["args"]:
            a = op_local(r[2]["args"][0])
            if a is not None:
                s2 = set()
                roots(f, a, _seen=s2)
                if s2 & T:
                    return True
    return False


def r2(db, rep):
    rep.rule("R2", "dense-storage fast paths run only for arrays: dominated by JsObject::is_array() (writes also by the "
                   "`extensible` test); compiler-internal fresh arrays are audited")
    n = 0
    for f in db.fns.values():
        if not f.id.startswith("boa_engine::") or not f.mentions("dense"):
            continue
        if f.file.endswith("property_map.rs") or f.span.endswith("tests.rs") or "/tests" in f.span:
            continue
        name = cname(f.id).split("::{closure")[0]
        k = -1
        for b, t in f.calls():
            c = cn(t)
            if c not in DENSE:
                continue
            k += 1
            n += 1
            if name in FRESH_ARRAYS:
                rep.ob("R2", f"{name}:{c.split('::')[-1]}:{k}:fresh-array", True, loc=f.loc(b))
                continue
            is_arr = False
            ext = False
            for sb in f.dominators().get(b, ()):
                bs = bool_switch(f, sb)
                if not bs:
                    continue
                l, fb, tb = bs
                pol, root = bool_origin(f, l)
                if root[0] == "call" and cn(root[2]) == "JsObject::is_array":
                    good = tb if pol else fb
                    if b in f.reach_from([good], avoid={sb}) and b not in f.reach_from([fb if pol else tb], avoid={sb}):
                        is_arr = True
                rs = roots(f, l)
                if any(r[0] == "place" and any(x.endswith("Object.extensible") for x in place_fields(r[1])) for r in rs) or \
                        (root[0] == "rv" and any(x.endswith("Object.extensible") for x in
                                                 place_fields((root[2].get("o") or [None, [0]])[1]))):
                    ext = True
            ok = is_arr and (DENSE[c] == "read" or ext or name == "Array::shift")
            # a write through the shortcut stores into `object`: when the operation has a separate receiver (`super[i] = v`),
            # the shortcut is only valid if the receiver is that same object
            recv = f.var_local("receiver") if hasattr(f, "var_local") else None
            if DENSE[c] == "write" and recv is not None and name not in FRESH_ARRAYS:
                same = False
                for sb in f.dominators().get(b, ()):
                    bs = bool_switch(f, sb)
                    if not bs:
                        continue
                    pol, root = bool_origin(f, bs[0])
                    if root[0] == "call" and cn(root[2]).split("::")[-1] in ("equals", "ptr_eq", "is_some_and"):
                        good = bs[2] if pol else bs[1]
                        if b in f.reach_from([good], avoid={sb}) and b not in f.reach_from([bs[1] if pol else bs[2]], avoid={sb}):
                            # the test involves the receiver (directly or through the closure given to is_some_and)
                            from facts import provenance
                            involved = set()
                            for a in root[2]["args"]:
                                al = op_local(a)
                                if al is not None:
                                    involved |= provenance(f, al, extra=("as_object", "clone", "as_ref"))
                            if recv in involved:
                                same = True
                rep.ob("R2", f"{name}:{c.split('::')[-1]}:{k}:receiver-is-object", same,
                       f"{name}: the dense write shortcut at {f.loc(b)} stores into the object although the operation has a "
                       f"separate receiver that is not tested to be that object: `super[0] = 9` in a method whose prototype is "
                       f"an array overwrites the prototype's element instead of defining an own property on `this`",
                       loc=f.loc(b))
            rep.ob("R2", f"{name}:{c.split('::')[-1]}:{k}", ok,
                   f"{name}: {c} at {f.loc(b)} is not guarded by is_array(){'' if DENSE[c] == 'read' else ' and the extensibility test'} — "
                   f"exotic objects (typed arrays, arguments, proxies) or frozen arrays would take the dense shortcut",
                   loc=f.loc(b))
    rep.floor("R2", "dense fast-path sites", n, 7)


def _widened_from_i32(f, o):
    l = op_local(o)
    if l is None:
        return False
    for r in roots(f, l):
        if r[0] == "call" and (callee(r[2]) or "").endswith("From<i32> for f64>::from"):
            return True
        if r[0] == "rv" and r[2].get("k") == "cast" and r[2].get("from") == "i32" and r[2].get("ty") == "f64":
            return True
    return False


def r3(db, rep):
    rep.rule("R3", "doubles enter the packed-int element storage only through a bit-exact (f64::to_bits) round-trip test; "
                   "no float equality against a value widened back from i32 (blind to -0)")
    ncast = 0
    nfloat = 0
    tops = {}
    for f in db.fns.values():
        if f.id.startswith("boa_engine::object::property_map::") and "::tests" not in f.id:
            tops.setdefault(f.id.split("::{closure")[0], []).append(f)
    for top, group in sorted(tops.items()):
        bitexact = False
        for g in group:
            for b in g.reachable():
                for s in g.blocks[b]["s"]:
                    r = s["r"]
                    if r.get("k") == "bin" and r.get("op") in ("Eq", "Ne") and r.get("ty") == "u64":
                        def from_bits(o):
                            l = op_local(o)
                            return l is not None and any(x[0] == "call" and cn(x[2]).endswith("f64::to_bits")
                                                         for x in roots(g, l))
                        if from_bits(r["a"]) and from_bits(r["b"]):
                            bitexact = True
        for g in group:
            k = 0
            for b in g.reachable():
                for s in g.blocks[b]["s"]:
                    r = s["r"]
                    if r.get("k") == "cast" and r.get("ck") == "FloatToInt" and r.get("from") == "f64" and r.get("ty") == "i32":
                        ncast += 1
                        rep.ob("R3", f"{cname(top)}:f64-as-i32:{k}:bit-exact-guard", bitexact,
                               f"{cname(g.id)} narrows a double to i32 ({g.file}:{s.get('ln')}) but neither it nor its closures "
                               f"compare f64::to_bits of the value with that of the widened result — a lossy value (-0, 2^31, "
                               f"0.5) could be stored in the int-packed array", loc=f"{g.file}:{s.get('ln')}")
                        k += 1
                    if r.get("k") == "bin" and r.get("op") in ("Eq", "Ne") and r.get("ty") == "f64":
                        nfloat += 1
                        bad = _widened_from_i32(g, r["a"]) or _widened_from_i32(g, r["b"])
                        rep.ob("R3", f"{cname(top)}:float-eq:{nfloat - 1}:not-a-roundtrip-test", not bad,
                               f"{cname(g.id)} tests `n == f64::from(n as i32)` with a float comparison ({g.file}:{s.get('ln')}): "
                               f"-0 == +0, so `a[i] = -0` on an int-packed array stores +0 (Object.is / 1/x observe it) while "
                               f"every other storage form keeps -0", loc=f"{g.file}:{s.get('ln')}")
    rep.floor("R3", "f64→i32 casts in object/property_map.rs", ncast, 2)


SET_SEMANTICS = {"Array::push": "Array.prototype.push: Set(O, index, value, true)",
                 "JsObject::set": "[[Set]] consults the prototype chain"}


def r4(db, rep):
    rep.rule("R4", "the VM's array builders (vm::opcode::push::array) add elements with CreateDataProperty semantics "
                   "(push_dense / create_data_property_or_throw), never with the [[Set]]-based Array::push / JsObject::set")
    n = 0
    for f in db.fns.values():
        if not f.id.startswith("boa_engine::vm::opcode::push::array") or "{closure" in f.id:
            continue
        if f.name != "operation":
            continue
        n += 1
        name = cname(f.id)
        k = 0
        for b, t in f.calls():
            c = cn(t)
            if c not in SET_SEMANTICS:
                continue
            # JsObject::set of the `length` key is how an elision bumps the length: not an element store
            if c == "JsObject::set" and len(t["args"]) >= 2:
                kl = op_local(t["args"][1])
                if kl is not None and any(r[0] == "const" or (r[0] == "call" and "LENGTH" in str(r[2]))
                                          or (r[0] == "place" and "LENGTH" in str(r[1])) for r in roots(f, kl)):
                    continue
                if kl is not None and "JsString" in f.locals[kl]:
                    continue      # a string key (length), not an index
            rep.ob("R4", f"{name}:{c.split('::')[-1]}:{k}:define-semantics", False,
                   f"{name} adds an element with {c} ({SET_SEMANTICS[c]}) at {f.loc(b)}: a setter for that index on "
                   f"Array.prototype is called and the element is not stored — `Object.defineProperty(Array.prototype, \"0\", "
                   f"{{set(v){{}}}}); f(...[1,2])` ends in EnginePanic `arguments array in call spread function must be dense`",
                   loc=f.loc(b))
            k += 1
        if k == 0:
            rep.ob("R4", f"{name}:define-semantics", True, loc=f.span)
    rep.floor("R4", "array-building opcode handlers", n, 4)


def r5(db, rep):
    from facts import provenance
    rep.rule("R5", "a direct store into the array length slot (PropertyMap.storage[0]) never shrinks the array: the stored value "
                   "is the old length plus a constant, or the store is dominated by an ordering comparison with the old length")
    CONV = ("as_i32", "as_number", "to_u32", "to_length", "clone", "branch", "unwrap", "expect", "into", "from", "new", "as_ref",
            "deref", "deref_mut", "index", "index_mut", "properties", "properties_mut", "borrow", "borrow_mut", "unwrap_or",
            "is_some_and", "try_from", "try_into", "map", "ok")
    n = 0
    for f in db.fns.values():
        if not f.id.startswith(("boa_engine::builtins::array", "boa_engine::vm::opcode::push::array")) or "::tests" in f.id:
            continue
        if not f.mentions("index_mut") or "{closure" in f.id:
            continue
        name = cname(f.id)
        # loads / slots of storage[0]
        slot_calls = []
        for b, t in f.calls():
            m = (t.get("rf") or callee(t) or "").split("::")[-1]
            if m not in ("index", "index_mut") or len(t["args"]) < 2:
                continue
            a1 = t["args"][1]
            zero = (a1[0] == "k" and a1[1].get("v") == "0") or (op_local(a1) is not None and any(
                r[0] == "const" and r[1].get("v") == "0" for r in roots(f, op_local(a1))))
            if not zero:
                continue
            l0 = op_local(t["args"][0])
            if l0 is None:
                continue
            prov = provenance(f, l0, extra=CONV)
            is_storage = False
            for q in prov:
                for bb, i, rr in f.defs().get(q, []):
                    if i != "t" and isinstance(rr, dict) and rr.get("k") == "ref" and any(
                            x.endswith("PropertyMap.storage") for x in place_fields(rr["p"])):
                        is_storage = True
            if is_storage:
                slot_calls.append((b, t, m))
        loads = {t["dest"][0] for b, t, m in slot_calls if m == "index" and t.get("dest")}
        k = 0
        for b, t, m in slot_calls:
            if m != "index_mut" or not t.get("dest"):
                continue
            ref = t["dest"][0]
            for sb in f.reach_from([t["to"]] if "to" in t else []):
                for st in f.blocks[sb]["s"]:
                    if st["p"][:1] == [ref] and len(st["p"]) == 2 and st["p"][1] == "*":
                        n += 1
                        vl = op_local(st["r"]["o"]) if st["r"].get("k") == "use" else None
                        vprov = provenance(f, vl, extra=CONV) if vl is not None else set()
                        grows = False
                        # (a) old length + constant
                        for q in vprov:
                            for bb, i, rr in f.defs().get(q, []):
                                if i != "t" and isinstance(rr, dict) and rr.get("k") in ("bin", "checked") and \
                                        rr.get("op", "").startswith("Add") and (vprov & loads):
                                    grows = True
                        # (b) dominated by an ordering comparison involving the old length
                        for db_ in f.dominators().get(sb, ()):
                            bs = bool_switch(f, db_)
                            if not bs:
                                continue
                            pol, root = bool_origin(f, bs[0])
                            cmp_ops = []
                            if root[0] == "rv" and root[2].get("k") == "bin" and root[2]["op"] in ("Ge", "Gt", "Le", "Lt"):
                                cmp_ops = [root[2]["a"], root[2]["b"]]
                            elif root[0] == "call" and cn(root[2]).split("::")[-1] in ("is_some_and", "ge", "gt", "le", "lt"):
                                cmp_ops = root[2]["args"]
                            for o in cmp_ops:
                                ol = op_local(o)
                                if ol is not None and provenance(f, ol, extra=CONV) & loads:
                                    grows = True
                        rep.ob("R5", f"{name}:length-slot-store:{k}:not-a-shrink", grows,
                               f"{name} writes the array length slot directly ({f.file}:{st.get('ln')}) with a value that may be "
                               f"smaller than the old length: the elements at and above it stay (a species constructor that "
                               f"returns a pre-filled array makes `splice` return length 1 with own keys 0..4)",
                               loc=f"{f.file}:{st.get('ln')}")
                        k += 1
    rep.floor("R5", "direct stores into the array length slot", n, 3)


def run(db, rep, tier):
    r1(db, rep)
    r2(db, rep)
    r3(db, rep)
    r4(db, rep)
    r5(db, rep)
