"""C07 — every host entry leaves the VM balanced and the context reusable.

Decided clauses (pairing on every non-panicking Rust path of the host entries / unwinding protocol):
  R1  frames: every Vm::push_frame* is followed by Vm::pop_frame on every path of its function
      ([[Call]]/[[Construct]] slots excepted: the VM return protocol pops their frame)
  R2  value stack on frame removal: a pop_frame outside the run protocol is followed by
      Stack::truncate_to_frame(&popped) (or a stack swap / split for generators)
  R3  unwinding protocol: handle_return/handle_throw/handle_error truncate the value stack on every
      path that returns ControlFlow::Break (control goes back to the host)
  R4  host pushes: in JsObject::call/construct the this/func/args pushed before the slot is resolved are
      consumed or removed on every path to a return
  R5  pairs: host_call_depth +1/-1, Context::swap_realm twice, stack swaps twice, native_active_function
"""
from facts import (call_blocks, cn, callee, cname, roots, op_local, op_place, taint, arg_hits,
                   assigns_to_field, place_fields)
import c08
import common

_DB = None


def pb(f):
    """blocks no balance path may use: panic-only blocks and coroutine suspension returns (cached)"""
    c = f.rec.get('_pb')
    if c is None:
        c = common.panic_blocks(_DB, f) | common.suspend_blocks(f)
        f.rec['_pb'] = c
    return c

CRATES = ["boa_engine"]
EXPLANATION = (
    "Pairing / must-pass-through rules over the MIR of every function of boa_engine that pushes or pops "
    "a call frame, of the unwinding protocol (Context::handle_return/handle_throw/handle_error) and of "
    "JsObject::call/construct. A rule instance is an acquire site (frame push, stack push, depth "
    "increment, realm/stack swap) whose release must be passed on every non-panicking path to a "
    "return — for every history of host entries, because every entry runs these same paths. Not "
    "decided: numeric depth equality; async cancellation (dropping the future mid-await).")

PUSH = ("Vm::push_frame", "Vm::push_frame_with_stack")
POP = "Vm::pop_frame"
RUNS = ("Context::run", "Context::run_async_with_budget")
# helpers that return Ok(..) with the frame they pushed still on the stack (the caller pops it);
# on Err they must have popped it themselves
ACQUIRERS = {"Script::prepare_run": "Script::evaluate / evaluate_async_with_budget pop the frame after run()"}
PROTOCOL = ("Context::handle_return", "Context::handle_throw", "Context::handle_error", "Context::handle_yield")


def is_ret(f):
    return lambda b: f.blocks[b]["t"]["t"] == "ret"


def err_return_blocks(f):
    """blocks that write an Err into the return place (`?` residual or explicit Err)"""
    out = set()
    for b in f.reachable():
        t = f.blocks[b]["t"]
        if t["t"] == "call" and t["dest"] == [0] and cn(t).endswith("from_residual"):
            out.add(b)
        for s in f.blocks[b]["s"]:
            if s["p"] == [0] and s["r"].get("k") == "agg" and s["r"].get("variant") == "Err":
                out.add(b)
    return out


def closure_calls(db, f, names, _d=0):
    """blocks of f that pass a closure (defined in f) whose body calls one of `names`"""
    out = []
    clos = {g.id: g for g in db.closures_of(f)}
    releasing = set()
    for gid, g in clos.items():
        if any(cn(t) in names for _, t in g.calls()):
            releasing.add(gid)
    if not releasing:
        return out
    for b in f.reachable():
        holders = set()
        for s in f.blocks[b]["s"]:
            r = s["r"]
            if r.get("k") == "agg" and r.get("ak") == "closure" and r.get("def") in releasing:
                holders.add(s["p"][0])
    # find calls taking such a closure value
    hold = set()
    for b in f.reachable():
        for s in f.blocks[b]["s"]:
            r = s["r"]
            if r.get("k") == "agg" and r.get("ak") == "closure" and r.get("def") in releasing:
                hold.add(s["p"][0])
    for l in list(hold):
        T, _, _ = taint(f, l)
        hold |= T
    for b, t in f.calls():
        if arg_hits(t, hold):
            out.append(b)
    return out


def ok_edge(f, b):
    """successor block on the Continue edge of `call(...)?`, else the call block itself"""
    t = f.blocks[b]["t"]
    d = t["dest"]
    if len(d) != 1 or "to" not in t:
        return b
    T, _, _ = taint(f, d[0])
    for bb, tt in f.calls():
        if cn(tt).endswith("::branch") and arg_hits(tt, T) and len(tt["dest"]) == 1:
            res = tt["dest"][0]
            for sb in f.reach_from([tt["to"]]) if "to" in tt else []:
                st = f.blocks[sb]["t"]
                if st["t"] != "switch":
                    continue
                l = op_local(st["o"])
                dd = f.single_def(l) if l is not None else None
                if dd and dd[1] != "t" and dd[2].get("k") == "discr" and dd[2]["p"] == [res]:
                    if "0" in st["vals"]:
                        return st["tgts"][st["vals"].index("0")]
    return b


def must_release(f, rep, rule, key, acq, rel, what, fix, goal=None, via_extra=None):
    via = [acq] if via_extra is None else via_extra
    path = f.path_search([], (set(rel) | pb(f)) - set(via), goal or is_ret(f), via=via)
    return rep.ob(rule, key, path is None,
                  f"{cname(f.id)}: {what} at {f.loc(acq)} is not {fix} on every path",
                  detail=[f"block path: {path}", f"lines: {[f.line_of(b) for b in (path or [])]}"], loc=f.loc(acq))


def r1(db, rep, slots):
    rep.rule("R1", "every Vm::push_frame/push_frame_with_stack (or successful frame-acquiring helper) is followed by "
                   "Vm::pop_frame on every path of the same function; [[Call]]/[[Construct]] slots are popped by the VM "
                   "return protocol")
    n = 0
    for f in db.fns.values():
        if not f.id.startswith("boa_engine::") or not (f.mentions("push_frame") or f.mentions("prepare_run")):
            continue
        name = cname(f.id)
        if name in PUSH:
            continue
        pops = [b for b, t in f.calls() if cn(t) == POP]
        pops += closure_calls(db, f, (POP,))
        k = -1
        for b, t in f.calls():
            c = cn(t)
            if c in PUSH:
                k += 1
                n += 1
                key = f"{name}:{c.split('::')[1]}:{k}"
                if f.id in slots:
                    rep.ob("R1", key + ":slot", True, loc=f.loc(b))
                    continue
                base = name.split("::{closure")[0]
                if base in ACQUIRERS:
                    # on Err the frame must be gone
                    errs = err_return_blocks(f)
                    path = f.path_search([], (set(pops) | pb(f)) - {b}, lambda x: x in errs, via=[b])
                    rep.ob("R1", key + ":err-path", path is None,
                           f"{name}: returns Err at {f.loc(path[-1]) if path else ''} with the frame pushed at {f.loc(b)} "
                           f"still on the frame stack", detail=[f"block path: {path}"], loc=f.loc(b))
                    continue
                must_release(f, rep, "R1", key, b, pops, "the call frame pushed", "popped by Vm::pop_frame")
            elif c in ACQUIRERS:
                k += 1
                n += 1
                acq = ok_edge(f, b)
                path = f.path_search([acq], set(pops) | pb(f), is_ret(f)) if acq != b else \
                    f.path_search([], set(pops) | pb(f), is_ret(f), via=[b])
                rep.ob("R1", f"{name}:{c.split('::')[1]}:{k}", path is None,
                       f"{name}: the frame acquired by {c} at {f.loc(b)} is not popped on every path",
                       detail=[f"block path: {path}"], loc=f.loc(b))
    rep.floor("R1", "frame push sites", n, 13)


def r2(db, rep, slots):
    rep.rule("R2", "a Vm::pop_frame that is not preceded by Context::run* in its function (whose unwinding protocol truncates) "
                   "is followed by Stack::truncate_to_frame / split_off_frame / a stack swap on every path: the popped "
                   "frame's this/function/argument/register slots must leave the value stack")
    n = 0
    TRUNC = ("Stack::truncate_to_frame", "Stack::split_off_frame", "Stack::truncate", "Vec::truncate")
    for f in db.fns.values():
        if not f.id.startswith("boa_engine::") or not f.mentions("pop_frame"):
            continue
        name = cname(f.id)
        base = name.split("::{closure")[0]
        if base in PROTOCOL or name == POP:
            continue
        runs = [b for b, t in f.calls() if cn(t) in RUNS or cn(t).endswith("run_async_with_budget")]
        k = -1
        for b, t in f.calls():
            if cn(t) != POP:
                continue
            k += 1
            n += 1
            key = f"{name}:pop_frame:{k}"
            # async fns: the coroutine body awaits run_async_with_budget (a call in the closure/coroutine body)
            entry = common.coroutine_entry(f)
            if runs and (any(f.dominates(r, b) for r in runs) or
                         (entry != 0 and f.path_avoiding([entry], set(runs), lambda x, b=b: x == b) is None)):
                rep.ob("R2", key + ":after-run", True, loc=f.loc(b))
                continue
            swaps = [bb for bb, tt in f.calls() if cn(tt) == "mem::swap" and any(
                l is not None and "boa_engine::vm::Stack" in f.locals[l] for l in [op_local(a) for a in tt["args"]])]
            if len(swaps) >= 2 and any(f.dominates(sw, b) for sw in swaps[1:]):
                # generator protocol: the frame's slots live in the generator's own stack, swapped out before the pop
                rep.ob("R2", key + ":stack-swapped-out", True, loc=f.loc(b))
                continue
            rel = [bb for bb, tt in f.calls() if cn(tt) in TRUNC]
            rel += [bb for bb, tt in f.calls() if cn(tt) == "mem::swap" and any("vm::Stack" in f.locals[l] for l in
                    [op_local(a) for a in tt["args"]] if l is not None)]
            # `if let Some(frame) = pop_frame() { truncate_to_frame(&frame) }`: on the None edge no frame was removed
            if len(t["dest"]) == 1:
                T, _, _ = taint(f, t["dest"][0])
                for sb in f.reachable():
                    st = f.blocks[sb]["t"]
                    if st["t"] != "switch":
                        continue
                    l = op_local(st["o"])
                    dd = f.single_def(l) if l is not None else None
                    if dd and dd[1] != "t" and dd[2].get("k") == "discr" and len(dd[2]["p"]) == 1 and dd[2]["p"][0] in T:
                        rel.append(st["tgts"][st["vals"].index("0")] if "0" in st["vals"] else st["tgts"][-1])
            must_release(f, rep, "R2", key, b, rel, "the frame removed by Vm::pop_frame",
                         "followed by Stack::truncate_to_frame(&frame) (its stack slots stay on the value stack: "
                         "2 + argc + register_count values leak per occurrence)")
    rep.floor("R2", "pop_frame sites outside the protocol", n, 10)


def r3(db, rep):
    rep.rule("R3", "unwinding protocol: every path of handle_return/handle_throw/handle_error that returns "
                   "ControlFlow::Break(Throw|Return) to the host first passes Stack::truncate_to_frame")
    n = 0
    for pn in ("Context::handle_return", "Context::handle_throw", "Context::handle_error"):
        fs = [f for f in db.fns.values() if cname(f.id) == pn]
        if not rep.anchor("R3", pn, fs):
            continue
        f = fs[0]
        trunc = set(b for b, t in f.calls() if cn(t) == "Stack::truncate_to_frame")
        # handle_error's catchable side ends in handle_throw (delegation)
        deleg = set(b for b, t in f.calls() if cn(t) in ("Context::handle_throw", "Context::handle_return"))
        k = -1
        for b in sorted(f.reachable()):
            for s in f.blocks[b]["s"]:
                r = s["r"]
                if s["p"] == [0] and r.get("k") == "agg" and r.get("adt", "").endswith("ControlFlow") and r.get("variant") == "Break":
                    k += 1
                    n += 1
                    path = f.path_search([0], trunc | deleg | pb(f), lambda x, b=b: x == b)
                    rep.ob("R3", f"{pn}:break-exit:{k}", path is None,
                           f"{pn}: returns ControlFlow::Break to the host at {f.loc(b)} on a path that never truncates the "
                           f"value stack to the exiting frame — the frame's slots outlive the failed entry",
                           detail=[f"block path: {path}", f"lines: {[f.line_of(x) for x in (path or [])]}"], loc=f.loc(b))
    rep.floor("R3", "Break exits of the unwinding protocol", n, 4)
    # handler found in an outer frame: the frames popped on the way must leave the value stack too
    fs = [f for f in db.fns.values() if cname(f.id) == "Context::handle_throw"]
    if fs:
        f = fs[0]
        trunc = set(b for b, t in f.calls() if cn(t) == "Stack::truncate_to_frame")
        pops = [b for b, t in f.calls() if cn(t) == POP]
        for i, pb_ in enumerate(pops):
            path = f.path_search([], (trunc | pb(f)) - {pb_}, is_ret(f), via=[pb_])
            rep.ob("R3", f"Context::handle_throw:popped-frame-truncated:{i}", path is None,
                   f"Context::handle_throw: a frame popped at {f.loc(pb_)} can be followed by a return (handler found in an "
                   f"outer frame) without truncating the value stack to it — every exception caught from a callee leaves the "
                   f"callee's this/function/arguments/registers above the catching frame's registers",
                   detail=[f"block path: {path}"], loc=f.loc(pb_))


def r4(db, rep):
    rep.rule("R4", "JsObject::call/construct: after pushing this/func/args every path to a return passes Context::run, a "
                   "Stack::pop of the result, or a truncation (an Err from the slot before it consumed them must not leave "
                   "them on the value stack)")
    for pn in ("JsObject::call", "JsObject::construct"):
        fs = [f for f in db.fns.values() if cname(f.id) == pn and f.id.startswith("boa_engine::object::operations")]
        if not rep.anchor("R4", pn, fs):
            continue
        f = fs[0]
        pushes = [b for b, t in f.calls() if cn(t) in ("Stack::push", "Stack::calling_convention_push_arguments")]
        if not rep.anchor("R4", f"{pn} stack pushes", pushes):
            continue
        first = min(pushes, key=lambda b: f._rpo().index(b))
        last = max(pushes, key=lambda b: f._rpo().index(b))
        rel = [b for b, t in f.calls() if cn(t) in RUNS + ("Stack::pop", "Stack::truncate", "Stack::truncate_to_frame",
                                                          "Stack::calling_convention_pop_arguments", "Vec::truncate")]
        # cleanup attached to the error edge: `.inspect_err(|_| stack.truncate(..))?`
        rel += closure_calls(_DB, f, ("Stack::truncate", "Stack::truncate_to_frame"))
        must_release(f, rep, "R4", f"{pn}:pushed-arguments", last, rel,
                     "the this/function/arguments pushed for the callee",
                     "consumed (run / pop) or removed when [[Call]]/[[Construct]] fails early (limit check, "
                     "class-constructor TypeError): they stay on the value stack")


def r5(db, rep):
    rep.rule("R5", "paired updates on every path: host_call_depth += 1 … -= 1; Context::swap_realm twice; "
                   "mem::swap(vm.stack, ..) twice; native_active_function set … restored")
    n = 0
    for f in db.fns.values():
        if not f.id.startswith("boa_engine::") or not (f.mentions("host_call_depth") or f.mentions("swap_realm") or
                                                      f.mentions("mem::swap") or f.mentions("native_active_function")):
            continue
        name = cname(f.id)
        # host_call_depth
        incs, decs = [], []
        for b, s in assigns_to_field(f, "Vm.host_call_depth"):
            r = s["r"]
            l = op_local(r["o"]) if r.get("k") == "use" else None
            kind = None
            if r.get("k") == "use" and l is None and r["o"][0] in ("c", "m"):
                # `(sum, overflow) = AddWithOverflow(depth, 1); depth = move sum.0`
                for y in roots(f, r["o"][1][0]):
                    if y[0] == "rv" and y[2].get("k") == "bin":
                        kind = "inc" if y[2]["op"].startswith("Add") else "dec" if y[2]["op"].startswith("Sub") else kind
            if r.get("k") == "bin":
                kind = "inc" if r["op"].startswith("Add") else "dec" if r["op"].startswith("Sub") else None
            elif l is not None:
                for x in roots(f, l):
                    if x[0] == "rv" and x[2].get("k") == "bin" and x[2]["op"].startswith("Add"):
                        kind = "inc"
                    elif x[0] == "rv" and x[2].get("k") == "bin" and x[2]["op"].startswith("Sub"):
                        kind = "dec"
                    elif x[0] == "call" and "sub" in cn(x[2]):
                        kind = "dec"
                    elif x[0] == "call" and "add" in cn(x[2]):
                        kind = "inc"
                    elif x[0] == "place" and kind is None:
                        # (a, overflow) = AddWithOverflow(..); field = move a.0
                        for y in roots(f, x[1][0]):
                            if y[0] == "rv" and y[2].get("k") == "bin":
                                kind = "inc" if y[2]["op"].startswith("Add") else "dec" if y[2]["op"].startswith("Sub") else kind
            if kind == "inc":
                incs.append(b)
            elif kind == "dec":
                decs.append(b)
        for i, b in enumerate(incs):
            n += 1
            path = f.path_search([], (set(decs) | pb(f)) - {b}, is_ret(f), via=[b]) if b not in decs else None
            rep.ob("R5", f"{name}:host_call_depth:{i}", path is None,
                   f"{name}: host_call_depth incremented at {f.loc(b)} is not decremented on every path — the recursion "
                   f"limit drifts after a failed entry", detail=[f"block path: {path}"], loc=f.loc(b))
        # swap_realm
        sw = [b for b, t in f.calls() if cn(t) == "Context::swap_realm"]
        order = f._rpo()
        sw.sort(key=lambda b: order.index(b))
        if sw and name != "Context::swap_realm":
            n += 1
            first, rest = sw[0], sw[1:]
            path = f.path_search([], (set(rest) | pb(f)) - {first}, is_ret(f), via=[first])
            rep.ob("R5", f"{name}:swap_realm", bool(rest) and path is None,
                   f"{name}: the realm swapped in at {f.loc(first)} is not swapped back on every path — the caller "
                   f"continues in the callee's realm (also C20)", detail=[f"block path: {path}"], loc=f.loc(first))
        # stack swaps
        ss = [b for b, t in f.calls() if cn(t) == "mem::swap" and any(
            l is not None and "boa_engine::vm::Stack" in f.locals[l] for l in [op_local(a) for a in t["args"]])]
        ss.sort(key=lambda b: order.index(b))
        if ss:
            n += 1
            first, rest = ss[0], ss[1:]
            path = f.path_search([], (set(rest) | pb(f)) - {first}, is_ret(f), via=[first])
            rep.ob("R5", f"{name}:stack-swap", bool(rest) and path is None,
                   f"{name}: the value stack swapped at {f.loc(first)} is not swapped back on every path",
                   detail=[f"block path: {path}"], loc=f.loc(first))
        # native_active_function
        sets, clears = [], []
        for b, s in assigns_to_field(f, "Vm.native_active_function"):
            r = s["r"]
            some = r.get("k") == "agg" and r.get("variant") == "Some"
            if r.get("k") == "use":
                l = op_local(r["o"])
                for y in (roots(f, l) if l is not None else []):
                    if y[0] == "rv" and y[2].get("k") == "agg" and y[2].get("variant") == "Some":
                        some = True
            if some:
                sets.append(b)
            else:
                clears.append(b)
        for i, b in enumerate(sets):
            n += 1
            path = f.path_search([], (set(clears) | pb(f)) - {b}, is_ret(f), via=[b])
            rep.ob("R5", f"{name}:native_active_function:{i}", path is None,
                   f"{name}: native_active_function set at {f.loc(b)} is not restored on every path",
                   detail=[f"block path: {path}"], loc=f.loc(b))
    rep.floor("R5", "paired-update sites", n, 9)


def run(db, rep, tier):
    global _DB
    _DB = db
    slots, _ = c08.call_slots(db, rep)
    rep.analysed.pop("R2.InternalObjectMethods tables", None)
    r1(db, rep, slots)
    r2(db, rep, slots)
    r3(db, rep)
    r4(db, rep)
    r5(db, rep)
    rep.assumptions += [
        "paths ending in a panic / PanicError construction are outside these rules",
        "dropping the future of evaluate_async_with_budget mid-await is not modelled",
    ]
