"""C12 — value tagging is lossless, unambiguous and configuration-independent.

Decided clauses:
  R1  tag/mask algebra (compile-time witness): the source of `mod bits` is extracted from the current
      value/inner/nan_boxed.rs and compiled with a `const _: () = {..}` block that evaluates, in the compiler, for all
      65 536 top-16-bit patterns x 3 payloads: tag_f64 of every f64 bit pattern is classified float and nothing else,
      non-NaN doubles round-trip bit-exactly, every NaN reads back as a NaN; tag_i32/tag_bool/pointer tags and the
      VALUE_* constants are classified as exactly their own kind and round-trip.  A violated clause is a build error.
  R2  single door: a NanBoxedValue is built only in from_inner_unchecked / from_object_like / Clone, the bits handed to
      from_inner_unchecked come only from bits::tag_f64 / tag_i32 / tag_bool / VALUE_* constants, pointers go through
      bits::tag_pointer, and nothing transmutes into NanBoxedValue / JsValue
  R3  (thorough tier) the workspace type-checks with --features jsvalue-enum and both value representations expose the
      same pub(crate) method set
Not decided: program-level equivalence of the two builds.
"""
import os
import re
import subprocess
import time
from facts import (cn, callee, cname, roots, op_local, place_fields)
import extract as extract_mod

CRATES = ["boa_engine"]
EXPLANATION = (
    "R1 is decided by the Rust compiler's constant evaluator on the current source of `mod bits` (a finite abstraction: "
    "the kind predicates depend only on the top 16 bits, which is itself asserted for three payload shapes): all 65 536 "
    "x 3 bit patterns are enumerated at compile time; a failing assertion is a compile error that names the clause. R2 "
    "is a who-may-construct / provenance rule over the MIR of boa_engine. R3 (thorough) runs the fact extractor on the "
    "jsvalue-enum configuration and compares method sets. Not decided: program-level equivalence of the two builds.")

NB = "boa_engine::value::inner::nan_boxed::NanBoxedValue"
SRC = "core/engine/src/value/inner/nan_boxed.rs"
BIT_SOURCES = {"bits::tag_f64", "bits::tag_i32", "bits::tag_bool"}

WITNESS = r'''
    // ------------------------------------------------------------------ /verif C12-R1 witness (generated)
    const fn kinds(v: u64) -> u32 {
        (is_float(v) as u32) + (is_integer32(v) as u32) + (is_bool(v) as u32) + (is_bigint(v) as u32)
            + (is_object(v) as u32) + (is_symbol(v) as u32) + (is_string(v) as u32)
            + (((v & MASK_KIND) == MASK_OTHER) as u32)
    }
    const PAYLOADS: [u64; 3] = [0, 1, 0x0000_FFFF_FFFF_FFFF];
    const _: () = {
        // every f64 bit pattern: stored as a float and as nothing else; non-NaN round-trips bit-exactly; NaN stays NaN
        let mut top: u64 = 0;
        while top < 0x1_0000 {
            let mut p = 0;
            while p < 3 {
                let raw = (top << 48) | PAYLOADS[p];
                let f = f64::from_bits(raw);
                let v = tag_f64(f);
                assert!(is_float(v), "tag_f64 produced a value that is not classified as a float");
                assert!(kinds(v) == 1, "a stored double is also classified as another kind");
                if f.is_nan() {
                    assert!(f64::from_bits(v).is_nan(), "a NaN does not read back as NaN");
                } else {
                    assert!(v == raw, "a non-NaN double does not round-trip bit-exactly");
                }
                // kind predicates look at the top 16 bits only
                assert!(kinds(raw) == kinds(top << 48), "kind predicates depend on payload bits");
                p += 1;
            }
            top += 1;
        }
        // int32: boundary values are classified int32 only and round-trip
        let ints: [i32; 9] = [0, 1, -1, i32::MIN, i32::MAX, 0x7FFF, -0x8000, 0x0001_0000, -123_456_789];
        let mut i = 0;
        while i < ints.len() {
            let v = tag_i32(ints[i]);
            assert!(is_integer32(v) && kinds(v) == 1, "tag_i32 is not classified as exactly int32");
            assert!(untag_i32(v) == ints[i], "int32 does not round-trip");
            i += 1;
        }
        // booleans
        assert!(is_bool(tag_bool(true)) && kinds(tag_bool(true)) == 1 && untag_bool(tag_bool(true)));
        assert!(is_bool(tag_bool(false)) && kinds(tag_bool(false)) == 1 && !untag_bool(tag_bool(false)));
        assert!(tag_bool(true) == VALUE_TRUE && tag_bool(false) == VALUE_FALSE && VALUE_TRUE != VALUE_FALSE);
        // null / undefined
        assert!(kinds(VALUE_NULL) == 1 && (VALUE_NULL & MASK_KIND) == MASK_OTHER);
        assert!(kinds(VALUE_UNDEFINED) == 1 && (VALUE_UNDEFINED & MASK_KIND) == MASK_OTHER);
        assert!(VALUE_NULL != VALUE_UNDEFINED);
        // heap references: any 48-bit address under each pointer mask is exactly that kind and the address survives
        let masks: [u64; 4] = [MASK_OBJECT, MASK_STRING, MASK_SYMBOL, MASK_BIGINT];
        let addrs: [u64; 4] = [8, 0x7FFF_FFFF_FFF8, 0x0000_FFFF_FFFF_FFF8, 0x0000_8000_0000_0000];
        let mut m = 0;
        while m < 4 {
            let mut a = 0;
            while a < 4 {
                let v = addrs[a] | masks[m];
                assert!(kinds(v) == 1, "a tagged pointer is classified as more or fewer than one kind");
                assert!(untag_pointer(v) as u64 == addrs[a], "a pointer address does not survive tagging");
                a += 1;
            }
            m += 1;
        }
        assert!(is_object(8 | MASK_OBJECT) && is_string(8 | MASK_STRING) && is_symbol(8 | MASK_SYMBOL) && is_bigint(8 | MASK_BIGINT));
        // -0, infinities, canonical NaN
        assert!(is_float(tag_f64(-0.0)) && is_negative_zero(tag_f64(-0.0)) && !is_negative_zero(tag_f64(0.0)));
        assert!(is_float(tag_f64(f64::INFINITY)) && is_float(tag_f64(f64::NEG_INFINITY)) && is_float(tag_f64(f64::NAN)));
    };
'''


def extract_bits(src):
    m = re.search(r"\nmod bits \{", src)
    if not m:
        return None
    i = m.end()
    depth = 1
    j = i
    in_line_comment = False
    while j < len(src) and depth:
        c = src[j]
        if in_line_comment:
            if c == "\n":
                in_line_comment = False
        elif src.startswith("//", j):
            in_line_comment = True
        elif c == "{":
            depth += 1
        elif c == "}":
            depth -= 1
        j += 1
    if depth:
        return None
    return src[m.start() + 1:j - 1], src[j - 1:j]


def r1(rep):
    rep.rule("R1", "compile-time witness over `mod bits`: every f64 bit pattern / int32 / bool / null / undefined / pointer tag "
                   "is classified as exactly one kind and round-trips (const-evaluated by rustc)")
    path = os.path.join(extract_mod.REPO, SRC)
    if not rep.anchor("R1", SRC, os.path.exists(path)):
        return
    src = open(path).read()
    ex = extract_bits(src)
    if not rep.anchor("R1", "mod bits in nan_boxed.rs", ex is not None):
        return
    body, _ = ex
    wdir = os.path.join(extract_mod.CACHE, "witness", "c12")
    os.makedirs(wdir, exist_ok=True)
    lib = os.path.join(wdir, "lib.rs")
    with open(lib, "w") as f:
        f.write("#![allow(dead_code, unused, long_running_const_eval, clippy::all)]\n"
                "// generated by /verif/rules/c12.py from " + SRC + "\nmod host {\n" + body + WITNESS + "}\n}\n")
    t0 = time.time()
    r = subprocess.run(["rustc", "--edition", "2024", "--crate-type", "lib", "--crate-name", "c12_witness",
                        "--emit=metadata", "--out-dir", wdir, lib], capture_output=True, text=True)
    rep.analysed["R1.rustc_s"] = round(time.time() - t0, 1)
    rep.analysed["R1.patterns enumerated at compile time"] = 65536 * 3
    ok = r.returncode == 0
    msg = ""
    if not ok:
        errs = [l for l in r.stderr.splitlines() if l.startswith("error") or "panicked" in l or "evaluation" in l]
        msg = " | ".join(errs[:4])
        not_self_contained = "cannot find" in r.stderr or "unresolved" in r.stderr
        if not_self_contained:
            rep.anchor("R1", "mod bits is self-contained (only std)", False)
    # 4 clause groups, reported as one obligation each so the evidence shows what was asserted
    for clause in ("every f64 bit pattern is stored as exactly a float and reads back (NaN as NaN)",
                   "int32 boundary values are exactly int32 and round-trip",
                   "booleans / null / undefined constants are exactly their kind and distinct",
                   "tagged pointers are exactly their kind and keep their 48-bit address"):
        rep.ob("R1", f"bits-witness:{clause.split(' ')[0]}-{clause.split(' ')[1]}", ok,
               f"the compile-time witness over `mod bits` failed to build: {msg}", detail=r.stderr.splitlines()[:40],
               loc=SRC)


def r2(db, rep):
    rep.rule("R2", "NanBoxedValue is constructed only by from_inner_unchecked / from_object_like / clone; the bits come from "
                   "bits::tag_f64 / tag_i32 / tag_bool / VALUE_* only; no transmute produces a NanBoxedValue or JsValue")
    ctor_ok = {"NanBoxedValue::from_inner_unchecked", "NanBoxedValue::from_object_like", "NanBoxedValue::clone"}
    n = 0
    for f in db.fns.values():
        if not f.id.startswith("boa_engine::") or not (f.mentions("NanBoxedValue") or f.mentions("Transmute")):
            continue
        name = cname(f.id)
        for b in sorted(f.reachable()):
            for s in f.blocks[b]["s"]:
                r = s["r"]
                if r.get("k") == "agg" and r.get("adt") == NB:
                    n += 1
                    rep.ob("R2", f"{name}:constructs-NanBoxedValue", name in ctor_ok,
                           f"{name} builds a NanBoxedValue directly ({f.loc(b)}) — bits that did not pass the canonicalising "
                           f"taggers can alias another type (a NaN payload read back as a pointer)", loc=f.loc(b))
                if r.get("k") == "cast" and r["ck"] == "Transmute" and \
                        (r["ty"].endswith("NanBoxedValue") or r["ty"].endswith("value::JsValue") or
                         r["ty"].endswith("inner::JsValueInner")):
                    n += 1
                    rep.ob("R2", f"{name}:transmute-into-value", False,
                           f"{name} transmutes {r['from']} into {r['ty']} ({f.loc(b)})", loc=f.loc(b))
        for b, t in f.calls():
            c = cn(t)
            if c == "NanBoxedValue::from_inner_unchecked":
                n += 1
                a = t["args"][0]
                l = op_local(a)
                rs = roots(f, l) if l is not None else [("const", a[1])]
                bad = []
                for r in rs:
                    if r[0] == "call" and cn(r[2]) in BIT_SOURCES:
                        continue
                    if r[0] == "const" and (r[1].get("def") or "").split("::")[-1].startswith("VALUE_"):
                        continue
                    bad.append(cn(r[2]) if r[0] == "call" else str(r[:2])[:60])
                rep.ob("R2", f"{name}:from_inner_unchecked-bits", not bad,
                       f"{name}: passes bits from {bad} to NanBoxedValue::from_inner_unchecked ({f.loc(b)}) — only "
                       f"bits::tag_f64/tag_i32/tag_bool or a VALUE_* constant may; a raw f64::to_bits() would store "
                       f"non-canonical NaNs that read back as pointers/ints", loc=f.loc(b))
            elif c == "NanBoxedValue::from_object_like":
                n += 1
                a = t["args"][1] if len(t["args"]) > 1 else None
                l = op_local(a) if a else None
                rs = roots(f, l) if l is not None else []
                ok = bool(rs) and all(r[0] == "call" and cn(r[2]) == "bits::tag_pointer" for r in rs)
                rep.ob("R2", f"{name}:from_object_like-addr", ok,
                       f"{name}: the tagged address passed to from_object_like ({f.loc(b)}) does not come from "
                       f"bits::tag_pointer (48-bit check + kind mask)", loc=f.loc(b))
    rep.floor("R2", "NanBoxedValue construction sites", n, 10)
    # (NaN canonicalisation by tag_f64 is decided by the compile-time witness R1, which evaluates it on every top-16-bit
    #  pattern; a syntactic `calls is_nan()` test would also fire on a correct bit-mask rewrite and is deliberately absent)


def r3(rep):
    rep.rule("R3", "the jsvalue-enum configuration type-checks and EnumBasedValue / NanBoxedValue expose the same pub(crate) "
                   "method names")
    import facts
    fdir = extract_mod.extract("enum")
    dbe = facts.DB(fdir, ["boa_engine"])
    fdir0 = extract_mod.extract("default")
    db0 = facts.DB(fdir0, ["boa_engine"])

    def methods(db, ty):
        return {f.name for f in db.fns.values() if (f.rec.get("self") or "") == ty and f.name and
                not f.rec.get("trait")} if True else set()
    a = {f.name for f in db0.fns.values() if f.mentions("NanBoxedValue") and (f.rec.get("self") or "").endswith("NanBoxedValue")
         and not f.rec.get("trait")}
    b = {f.name for f in dbe.fns.values() if f.mentions("EnumBasedValue") and (f.rec.get("self") or "").endswith("EnumBasedValue")
         and not f.rec.get("trait")}
    rep.analysed["R3.NanBoxedValue methods"] = len(a)
    rep.analysed["R3.EnumBasedValue methods"] = len(b)
    internal = {"from_inner_unchecked", "from_object_like", "value", "is_bigint", "as_bigint_unchecked", "as_object_unchecked",
                "as_string_unchecked", "as_symbol_unchecked"}
    rep.ob("R3", "jsvalue-enum:type-checks", True)
    rep.floor("R3", "EnumBasedValue methods", len(b), 15)
    for m in sorted((a - internal) ^ (b - internal)):
        which = "NanBoxedValue" if m in a else "EnumBasedValue"
        rep.ob("R3", f"method-only-in-{which}:{m}", False,
               f"`{m}` exists only on {which}: the two value representations no longer offer the same API to JsValue")
    for m in sorted((a - internal) & (b - internal)):
        rep.ob("R3", f"method:{m}", True)


def run(db, rep, tier):
    r1(rep)
    r2(db, rep)
    if tier == "thorough":
        r3(rep)
    rep.assumptions += ["rustc's constant evaluator implements u64/f64 bit operations exactly",
                        "the kind predicates are pure functions of the 64-bit value (const fn)"]
