"""C11 — string behaviour depends only on the code-unit sequence.

Decided clauses:
  R1  equality checks length: in every PartialEq::eq of boa_string an Iterator::zip comparison is dominated by a
      length comparison whose unequal side returns false (zip stops at the shorter operand)
  R2  no cross-encoding byte comparison: bytes obtained from str::as_bytes() (UTF-8) meet a Latin-1 payload only
      under an is_ascii() test of that str, for an ASCII literal, or when they are numeric formatter output
  R3  the two arms of Hash for JsStr feed the hasher the same method sequence (write_usize, write_u16 per unit);
      the mixed arm of Ord uses the code-unit iterators
  R4  every literal handed to JsStr::latin1 in the static string table is ASCII
  R5  a Latin-1 payload is never decoded as UTF-8: a byte slice taken from JsStrVariant::Latin1 / JsStr::as_latin1 reaches
      str::from_utf8 / from_utf8_unchecked / String::from_utf8(_lossy) only on the true side of an is_ascii() test of
      that slice (boa_string and boa_engine) — the reverse direction of R2
"""
import re
from facts import (cn, callee, cname, roots, op_local, taint, arg_hits, place_fields, bool_switch, bool_origin)

CRATES = ["boa_string", "boa_engine"]
EXPLANATION = (
    "Dominance and provenance rules over the MIR of boa_string: every PartialEq::eq impl (zip sites), every "
    "str::as_bytes() site and its consumers, the Hash/Ord impls of JsStr and the constant initialisers of the static "
    "string table (literal bytes read from MIR constants). Instances are call sites / literals; the rules hold for all "
    "code-unit sequences because they constrain the comparison/hash code itself. Not decided: every other string "
    "operation; slice clamping arithmetic.")

AUDITED_AS_BYTES = {
    "StaticJsStrings::find_static_js_string":
        "candidate bytes are compared only with the static table, whose entries are all ASCII (R4): a byte-wise match implies "
        "the candidate is ASCII",
}
ASCII_PRODUCERS = ("Buffer::format", "Buffer::format_finite")   # itoa / ryu / ryu-js output


def is_ret(f):
    return lambda b: f.blocks[b]["t"]["t"] == "ret"


def r1(db, rep):
    rep.rule("R1", "PartialEq::eq: Iterator::zip is dominated by `len(a) == len(b)` (unequal side returns false)")
    n = 0
    neq = 0
    for f in db.fns.values():
        if f.krate != "boa_string" or f.rec.get("trait") != "core::cmp::PartialEq" or f.name != "eq":
            continue
        if "/tests" in f.span or f.span.endswith("tests.rs"):
            continue
        neq += 1
        name = f.id.split(" as ")[0].lstrip("<") + " == " + (f.id.split("PartialEq")[1].split(">::eq")[0] or "Self")
        k = -1
        for b, t in f.calls():
            if not cn(t).endswith("::zip"):
                continue
            k += 1
            n += 1
            ok = False
            for sb in f.dominators().get(b, ()):
                bs = bool_switch(f, sb)
                if not bs:
                    continue
                l, fb, tb = bs
                pol, root = bool_origin(f, l)
                if root[0] != "rv" or root[2].get("k") != "bin" or root[2]["op"] not in ("Eq", "Ne"):
                    continue
                both_len = True
                for o in (root[2]["a"], root[2]["b"]):
                    ll = op_local(o)
                    rs = roots(f, ll) if ll is not None else []
                    if not rs or not all(r[0] == "call" and cn(r[2]).split("::")[-1] == "len" for r in rs):
                        both_len = False
                if not both_len:
                    continue
                eq_side = tb if (root[2]["op"] == "Eq") == pol else fb
                ne_side = fb if eq_side == tb else tb
                if b in f.reach_from([eq_side], avoid={sb}) and b not in f.reach_from([ne_side], avoid={sb}):
                    ok = True
            rep.ob("R1", f"{cname(f.id)}[{f.rec.get('self')}|{f.id.split('PartialEq')[1].split('>::eq')[0]}]:zip:{k}", ok,
                   f"{f.id}: compares code units with Iterator::zip at {f.loc(b)} without first comparing lengths — a string equals "
                   f"any of its prefixes / extensions (`\"ab\\u{{3c0}}\" == \"ab\"`)", loc=f.loc(b))
    rep.floor("R1", "PartialEq::eq impls in boa_string", neq, 12)
    rep.floor("R1", "zip comparisons", n, 3)


def r2(db, rep):
    rep.rule("R2", "UTF-8 bytes of a str (str::as_bytes) are used as Latin-1 code units / compared with a Latin-1 payload only "
                   "for ASCII: under str::is_ascii(), for an ASCII literal, or for numeric formatter output")
    n = 0
    ordn = {}
    for f in db.fns.values():
        if f.krate != "boa_string" or not f.mentions("as_bytes"):
            continue
        if f.span.endswith("tests.rs") or "/tests" in f.span:
            continue
        name = cname(f.id)
        for b, t in f.calls():
            if cn(t) != "str::as_bytes" or not t["args"]:
                continue
            n += 1
            ordn[name] = ordn.get(name, -1) + 1
            key = f"{name}:as_bytes:{ordn[name]}"
            l = op_local(t["args"][0])
            rs = roots(f, l) if l is not None else ([("const", t["args"][0][1])] if t["args"][0][0] == "k" else [])
            why = None
            if rs and all(r[0] == "const" for r in rs):
                lits = [r[1].get("c", "") for r in rs]
                if all(is_ascii_literal(x) for x in lits):
                    why = "ASCII literal"
                else:
                    why = None
            elif rs and all(r[0] == "call" and cn(r[2]) in ASCII_PRODUCERS for r in rs):
                why = "numeric formatter output (ASCII digits)"
            else:
                # dominated by is_ascii() true edge on the same str
                want = set()
                for r in rs:
                    want.add(repr(r[:2]) if r[0] != "place" else repr(r[1]))
                for sb in f.dominators().get(b, ()):
                    bs = bool_switch(f, sb)
                    if not bs:
                        continue
                    l2, fb, tb = bs
                    pol, root = bool_origin(f, l2)
                    if root[0] == "call" and cn(root[2]) == "str::is_ascii":
                        good = tb if pol else fb
                        bad = fb if pol else tb
                        if b in f.reach_from([good], avoid={sb}) and b not in f.reach_from([bad], avoid={sb}):
                            why = "under is_ascii()"
            base = name.split("::{closure")[0]
            if why is None and base in AUDITED_AS_BYTES:
                why = "audited: " + AUDITED_AS_BYTES[base]
            rep.ob("R2", key, why is not None,
                   f"{f.id}: str::as_bytes() at {f.loc(b)} yields UTF-8 bytes that are compared with / stored as Latin-1 code "
                   f"units without an ASCII guarantee — \"\\u{{e9}}\" (Latin-1 byte E9) != \"é\" (UTF-8 C3 A9)", loc=f.loc(b))
    rep.floor("R2", "str::as_bytes sites", n, 500)


def is_ascii_literal(c):
    """pretty-printed MIR str constant: `"..."`; non-ASCII characters would appear verbatim or as \\u{..} escapes"""
    if not c:
        return False
    if "\\u{" in c:
        return False
    return all(ord(ch) < 128 for ch in c)


def r3(db, rep):
    rep.rule("R3", "Hash for JsStr: every encoding arm writes the length with write_usize and each unit with write_u16; "
                   "Ord for JsStr: the mixed-encoding arm compares the code-unit iterators")
    fs = [f for f in db.fns.values() if f.krate == "boa_string" and f.rec.get("trait") == "core::hash::Hash"
          and f.name == "hash" and (f.rec.get("self") or "").startswith("boa_string::str::JsStr")]
    if rep.anchor("R3", "impl Hash for JsStr", fs):
        f = fs[0]
        # switch on the variant
        sw = None
        for b in sorted(f.reachable()):
            t = f.blocks[b]["t"]
            if t["t"] == "switch":
                l = op_local(t["o"])
                d = f.single_def(l) if l is not None else None
                if d and d[1] != "t" and d[2].get("k") == "discr":
                    sw = (b, t)
                    break
        if rep.anchor("R3", "variant switch in Hash for JsStr", sw):
            b, t = sw
            tg = [x for x in t["tgts"] if f.blocks[x]["t"]["t"] != "unreachable"]
            seqs = []
            for x in tg:
                others = [y for y in tg if y != x]
                region = f.reach_from([x]) - f.reach_from(others)
                ws = sorted({cn(tt).split("::")[-1] for bb, tt in f.calls() if bb in region and "::write" in cn(tt)})
                seqs.append(ws)
            ok = len(seqs) >= 2 and all(s == ["write_u16", "write_usize"] for s in seqs)
            rep.ob("R3", "Hash for JsStr:arms-agree", ok,
                   f"Hash for JsStr: the encoding arms feed the hasher differently ({seqs}) — equal strings in different "
                   f"encodings would hash differently", loc=f.span)
    fs = [f for f in db.fns.values() if f.krate == "boa_string" and f.rec.get("trait") == "core::cmp::Ord"
          and f.name == "cmp" and (f.rec.get("self") or "").startswith("boa_string::str::JsStr")]
    if rep.anchor("R3", "impl Ord for JsStr", fs):
        f = fs[0]
        ok = False
        for b, t in f.calls():
            if cn(t).endswith("::cmp") and len(t["args"]) == 2:
                r0 = [cn(r[2]) for a in t["args"] for r in (roots(f, op_local(a)) if op_local(a) is not None else []) if r[0] == "call"]
                if r0 and all(x == "JsStr::iter" for x in r0) and len(r0) == 2:
                    ok = True
        rep.ob("R3", "Ord for JsStr:mixed-arm-iterates-code-units", ok,
               "Ord for JsStr: no arm compares JsStr::iter() of both operands — mixed Latin-1/UTF-16 operands would be ordered "
               "by representation", loc=f.span)


def r4(db, rep):
    rep.rule("R4", "every string literal in the static string table (boa_string::common) is ASCII, so its UTF-8 bytes are its "
                   "Latin-1 code units")
    n = 0
    bad = []
    for f in db.fns.values():
        if f.krate != "boa_string" or not f.id.startswith("boa_string::common"):
            continue
        if not (f.kind.startswith(("const", "static")) or f.kind in ("constant", "static", "promoted")):
            continue
        for b in range(len(f.blocks)):
            for s in f.blocks[b]["s"]:
                for o in _operands(s["r"]):
                    if o[0] == "k" and o[1].get("ty", "").endswith("str") and "c" in o[1]:
                        n += 1
                        if not is_ascii_literal(o[1]["c"]):
                            bad.append(o[1]["c"])
            t = f.blocks[b]["t"]
            if t["t"] == "call":
                for o in t["args"]:
                    if o[0] == "k" and o[1].get("ty", "").endswith("str") and "c" in o[1]:
                        n += 1
                        if not is_ascii_literal(o[1]["c"]):
                            bad.append(o[1]["c"])
    rep.floor("R4", "static table literals", n, 600)
    rep.ob("R4", "static-table:ascii", not bad,
           f"static string table contains non-ASCII literal(s) {bad[:3]} stored through JsStr::latin1(str.as_bytes())",
           loc="core/string/src/common.rs")


def _operands(r):
    k = r.get("k")
    if k in ("use", "cast", "un", "repeat"):
        return [r["o"]]
    if k == "bin":
        return [r["a"], r["b"]]
    if k == "agg":
        return r["ops"]
    return []


UTF8_DECODERS = ("core::str::converts::from_utf8", "core::str::converts::from_utf8_unchecked",
                 "core::str::converts::from_utf8_mut", "core::str::converts::from_utf8_unchecked_mut",
                 "alloc::string::String::from_utf8", "alloc::string::String::from_utf8_lossy",
                 "alloc::string::String::from_utf8_unchecked", "alloc::string::String::from_utf8_lossy_owned",
                 "core::str::<impl str>::from_utf8", "core::str::<impl str>::from_utf8_unchecked")


def _latin1_rooted(f, l, depth=0):
    for r in roots(f, l):
        if r[0] == "place":
            if any(isinstance(e, str) and e == "v:Latin1" for e in r[1]):
                return True
            if depth < 4 and r[1][0] != l and _latin1_rooted(f, r[1][0], depth + 1):
                return True
        elif r[0] == "call":
            c = cn(r[2])
            if c.endswith("::as_latin1"):
                return True
            # Option/Result adapters and slicing keep the payload
            if depth < 4 and c.split("::")[-1] in ("unwrap", "expect", "unwrap_unchecked", "index", "get", "get_unchecked",
                                                     "as_ref", "deref", "as_slice", "to_vec", "into", "from", "clone"):
                for a in r[2]["args"][:1]:
                    la = op_local(a)
                    if la is not None and _latin1_rooted(f, la, depth + 1):
                        return True
    return False


def r5(db, rep):
    rep.rule("R5", "a Latin-1 payload reaches a UTF-8 decoder only on the true side of an is_ascii() test of that payload")
    n = 0
    for f in db.fns.values():
        if f.krate not in ("boa_string", "boa_engine") or not f.mentions("from_utf8"):
            continue
        if "/tests" in f.span or f.span.endswith("tests.rs") or "::tests::" in f.id:
            continue
        k = 0
        for b, t in f.calls():
            c = (t.get("rf") or callee(t) or "")
            if not any(c.startswith(d) for d in UTF8_DECODERS) or not t["args"]:
                continue
            l = op_local(t["args"][0])
            if l is None or not _latin1_rooted(f, l):
                continue
            n += 1
            ok = False
            for sb in f.dominators().get(b, ()):
                bs = bool_switch(f, sb)
                if not bs:
                    continue
                fl, fb, tb = bs
                pol, root = bool_origin(f, fl)
                if root[0] != "call" or not cn(root[2]).endswith("is_ascii") or not root[2]["args"]:
                    continue
                la = op_local(root[2]["args"][0])
                if la is None or not _latin1_rooted(f, la):
                    continue
                good, badside = (tb, fb) if pol else (fb, tb)
                if b in f.reach_from([good], avoid={sb}) and b not in f.reach_from([badside], avoid={sb}):
                    ok = True
            rep.ob("R5", f"{cname(f.id)}:latin1-to-utf8:{k}", ok,
                   f"{cname(f.id)} decodes a Latin-1 payload as UTF-8 ({f.loc(b)}) without an is_ascii() guard: code units "
                   f">= 0x80 that happen to form a UTF-8 sequence collapse into another character, so the same code-unit "
                   f"sequence behaves differently in a Latin-1 and a UTF-16 buffer", loc=f.loc(b))
            k += 1
    rep.floor("R5", "Latin-1 payloads handed to a UTF-8 decoder", n, 1)


def run(db, rep, tier):
    r1(db, rep)
    r2(db, rep)
    r3(db, rep)
    r4(db, rep)
    r5(db, rep)
