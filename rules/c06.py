"""C06 — inline caches are semantically transparent.

Decided clauses (each necessary for a cached slot to mean what the uncached lookup means):
  R1  storage-layout change ⇒ new shape: the length of PropertyMap.storage changes only in
      PropertyMap::insert_with_slot / remove (whole-vector installation only in object templates / builders),
      and every path through such a mutation assigns PropertyMap.shape
  R2  only cacheable slots are stored: every InlineCache::set is dominated by the true edge of is_cacheable
  R3  depth bookkeeping: every `slot.attributes |= PROTOTYPE` is immediately preceded by
      set_not_cacheable_if_already_prototype (a slot found two levels up must not be cached)
  R4  validated holder: on a cache hit storage[slot.index] is applied only to the object whose shape() was
      the argument of the InlineCache::get that produced the slot
"""
from facts import (cn, callee, cname, roots, op_local, op_place, taint, arg_hits, place_fields, bool_switch,
                   bool_origin, base_ident)

CRATES = ["boa_engine"]
EXPLANATION = (
    "Who-may-write, dominance and value-provenance rules over the MIR of boa_engine's property map, ordinary "
    "[[Get]]/[[Set]] bookkeeping and the inline-cache fast paths of the VM. Rule instances are storage mutation "
    "sites, InlineCache::set sites, PROTOTYPE-flag sites and cached storage index sites; each is checked on every "
    "path. They hold for every access history because they constrain the only code that can change a layout or "
    "consume a cached slot. Not decided: equality of cached and uncached results for all histories.")

LEN_MUTATORS = {"insert", "remove", "push", "pop", "truncate", "clear", "extend", "extend_from_slice", "drain",
                "retain", "retain_mut", "resize", "resize_with", "swap_remove", "append", "split_off", "dedup",
                "insert_many", "set_len"}
LAYOUT_OWNERS = {
    "PropertyMap::insert_with_slot": "transition + matching storage edit",
    "PropertyMap::remove": "remove_property_transition + storage.remove",
}
WHOLE_STORAGE_WRITERS = {
    "ObjectTemplate::create": "fresh object: storage built to match the template's shape",
    "ObjectTemplate::create_with_indexed_properties": "fresh object: storage built to match the template's shape",
    "BuiltInConstructorWithPrototype::build": "builder installs storage and the matching static shape together",
    "BuiltInConstructorWithPrototype::build_without_prototype": "builder installs storage and the matching static shape together",
    "PropertyMap::new": "constructor", "PropertyMap::from_prototype_unique_shape": "constructor",
    "PropertyMap::from_prototype_with_shared_shape": "constructor",
}
PASS_THROUGH = ("Deref::deref", "DerefMut::deref_mut", "GcRef::deref", "GcRefMut::deref", "GcRefMut::deref_mut",
                "Object::properties", "Object::properties_mut", "JsObject::borrow", "JsObject::borrow_mut",
                "Gc::deref", "GcRefCell::borrow", "GcRefCell::borrow_mut", "JsObject::deref", "Clone::clone",
                "JsObject::clone")


def is_ret(f):
    return lambda b: f.blocks[b]["t"]["t"] == "ret"


def storage_receiver(f, t):
    """is arg0 of this call a (re)borrow of a PropertyMap.storage place?"""
    if not t["args"]:
        return False
    l = op_local(t["args"][0])
    if l is None:
        return False
    seen = set()
    cur = l
    for _ in range(8):
        d = f.single_def(cur)
        if not d or d[1] == "t":
            return False
        r = d[2]
        if r.get("k") == "ref":
            if any(x.endswith("PropertyMap.storage") for x in place_fields(r["p"])):
                return True
            cur = r["p"][0]
            continue
        if r.get("k") == "use" and r["o"][0] in ("c", "m"):
            cur = r["o"][1][0]
            continue
        return False
    return False


def r1(db, rep):
    rep.rule("R1", "PropertyMap.storage changes length only in PropertyMap::insert_with_slot/remove, and every path through "
                   "such a mutation also assigns PropertyMap.shape (shape identity is the cache's validity token)")
    nm = 0
    for f in db.fns.values():
        if not f.id.startswith("boa_engine::") or not f.mentions("PropertyMap"):
            continue
        name = cname(f.id).split("::{closure")[0]
        muts = []
        whole = []
        for b, t in f.calls():
            c = cn(t)
            meth = c.split("::")[-1]
            if base_ident(c.split("::")[0]) in ("Vec", "ThinVec") and meth in LEN_MUTATORS and storage_receiver(f, t):
                muts.append((b, meth))
            if c in ("mem::replace", "mem::take", "mem::swap") and storage_receiver(f, t):
                whole.append(b)
        for b in f.reachable():
            for s in f.blocks[b]["s"]:
                fl = place_fields(s["p"])
                if fl and fl[-1].endswith("PropertyMap.storage"):
                    whole.append(b)
                r = s["r"]
                if r.get("k") == "agg" and r.get("adt", "").endswith("property_map::PropertyMap") and "storage" in r.get("fields", []):
                    whole.append(b)
        if whole:
            rep.ob("R1", f"{name}:installs-storage", name in WHOLE_STORAGE_WRITERS,
                   f"{name} replaces PropertyMap.storage wholesale but is not an audited constructor/template/builder — "
                   f"a layout the object's shape does not describe makes every cached slot index wrong", loc=f.span)
        if not muts:
            continue
        rep.ob("R1", f"{name}:may-change-layout", name in LAYOUT_OWNERS,
               f"{name} changes the length of PropertyMap.storage ({sorted(set(m for _, m in muts))}) outside "
               f"PropertyMap::insert_with_slot/remove", loc=f.span)
        shape_assign = set()
        for b in f.reachable():
            for s in f.blocks[b]["s"]:
                fl = place_fields(s["p"])
                if fl and fl[-1].endswith("PropertyMap.shape"):
                    shape_assign.add(b)
        for i, (b, meth) in enumerate(sorted(muts)):
            nm += 1
            before = f.path_avoiding([0], shape_assign, lambda x, b=b: x == b) if b not in shape_assign else None
            after = f.path_avoiding(f.succs(b), shape_assign, is_ret(f)) if before is not None else None
            rep.ob("R1", f"{name}:storage.{meth}:{i}", not (before is not None and after is not None),
                   f"{name}: storage.{meth} at {f.loc(b)} lies on a path that never assigns self.shape — the object keeps its "
                   f"shape identity while its layout changed, so inline caches keyed on that shape read the wrong slot",
                   detail=[f"path to it: {before}", f"path from it to return: {after}"], loc=f.loc(b))
    rep.floor("R1", "storage length mutation sites", nm, 6)


def r2(db, rep):
    rep.rule("R2", "every InlineCache::set is dominated by the true edge of Slot::is_cacheable on the slot it stores")
    n = 0
    for f in db.fns.values():
        if not f.id.startswith("boa_engine::") or not f.mentions("InlineCache"):
            continue
        name = cname(f.id)
        k = -1
        for b, t in f.calls():
            if cn(t) != "InlineCache::set":
                continue
            k += 1
            n += 1
            ok = False
            for sb in f.dominators().get(b, ()):
                bs = bool_switch(f, sb)
                if not bs:
                    continue
                l, fb, tb = bs
                pol, root = bool_origin(f, l)
                if root[0] == "call" and cn(root[2]) in ("Slot::is_cacheable", "SlotAttributes::is_cacheable"):
                    good = tb if pol else fb
                    bad = fb if pol else tb
                    if b in f.reach_from([good], avoid={sb}) and b not in f.reach_from([bad], avoid={sb}):
                        ok = True
            rep.ob("R2", f"{name}:InlineCache::set:{k}", ok,
                   f"{name}: InlineCache::set at {f.loc(b)} is not guarded by slot.is_cacheable() — a slot found through a "
                   f"proxy/exotic object, deeper than one prototype level, or not found at all would be cached", loc=f.loc(b))
    rep.floor("R2", "InlineCache::set sites", n, 3)


def r3(db, rep):
    rep.rule("R3", "every `slot.attributes |= SlotAttributes::PROTOTYPE` is immediately preceded (same straight-line "
                   "chain) by Slot::set_not_cacheable_if_already_prototype")
    n = 0
    for f in db.fns.values():
        if not f.id.startswith("boa_engine::object::internal_methods") and not f.id.startswith("boa_engine::builtins"):
            continue
        if not f.mentions("bitor_assign"):
            continue
        name = cname(f.id)
        k = -1
        for b, t in f.calls():
            c = cn(t)
            if not c.endswith("::bitor_assign") or len(t["args"]) < 2:
                continue
            a = t["args"][1]
            txt = str(a)
            if "SlotAttributes" not in txt or "PROTOTYPE" not in txt:
                continue
            k += 1
            n += 1
            # walk back through unique predecessors
            cur = b
            found = False
            for _ in range(12):
                ps = [p for p in f.preds()[cur] if p in f.reachable()]
                if len(ps) != 1:
                    break
                cur = ps[0]
                tt = f.blocks[cur]["t"]
                if tt["t"] == "call":
                    cc = cn(tt)
                    if cc == "Slot::set_not_cacheable_if_already_prototype":
                        found = True
                        break
                    if cc.endswith("::bitor_assign"):
                        break
            rep.ob("R3", f"{name}:or-PROTOTYPE:{k}", found,
                   f"{name}: `|= SlotAttributes::PROTOTYPE` at {f.loc(b)} is not preceded by "
                   f"set_not_cacheable_if_already_prototype — a property found two or more prototype levels up would be "
                   f"cached as if it lived on the direct prototype", loc=f.loc(b))
    rep.floor("R3", "PROTOTYPE flag sites", n, 4)


def holder(f, local):
    """the local (JsObject / object reference) a borrowed object / property map / storage reference came from"""
    cur = local
    seen = set()
    for _ in range(24):
        if cur in seen:
            break
        seen.add(cur)
        d = f.single_def(cur)
        if d is None:
            return cur
        b, i, r = d
        if i == "t":
            c = cn(r)
            if (c in PASS_THROUGH or c.endswith(("::deref", "::deref_mut", "::borrow", "::borrow_mut", "::properties",
                                                 "::properties_mut"))) and r["args"]:
                a = r["args"][0]
                if a[0] in ("c", "m"):
                    cur = a[1][0]
                    continue
            return cur
        k = r.get("k")
        if k == "ref":
            cur = r["p"][0]
            continue
        if k == "use" and r["o"][0] in ("c", "m"):
            cur = r["o"][1][0]
            continue
        return cur
    return cur


# cached-index sites that are wrong on paper but unreachable, with the fact the argument rests on
AUDITED_R4 = {
    "property::set_by_name:cached-index:0:2": (
        "data-property write into the prototype's storage: never cached, because ordinary_set marks the slot "
        "NOT_CACHEABLE whenever the holder is not the receiver, and a set site's cache is filled only by set_by_name",
        ("ordinary_set", "NOT_CACHEABLE")),
}


def audit_holds(db, req):
    """the audited argument's anchor: function `req[0]` still sets the flag `req[1]` through SlotAttributes::set"""
    for f in db.fns.values():
        if f.name == req[0] and f.id.startswith("boa_engine::object::internal_methods"):
            for b, t in f.calls():
                if cn(t) == "SlotAttributes::set" and req[1] in str(t["args"]):
                    return True
    return False


def r4(db, rep):
    rep.rule("R4", "a slot returned by InlineCache::get(shape_of(X)) indexes only X's own storage: the cache validated X's "
                   "layout, nobody else's")
    n = 0
    for f in db.fns.values():
        if not f.id.startswith("boa_engine::vm::opcode"):
            continue
        if not f.mentions("InlineCache"):
            continue
        name = cname(f.id)
        gets = [(b, t) for b, t in f.calls() if cn(t) == "InlineCache::get"]
        if not gets:
            continue
        for gi, (gb, gt) in enumerate(gets):
            if len(gt["args"]) < 2 or len(gt["dest"]) != 1:
                continue
            sl = op_local(gt["args"][1])
            if sl is None:
                continue
            # shape argument: Object::shape(&*X)
            hs = None
            d = f.single_def(sl)
            cur = sl
            for _ in range(6):
                d = f.single_def(cur)
                if d and d[1] == "t" and cn(d[2]).endswith("::shape") and d[2]["args"]:
                    hs = holder(f, d[2]["args"][0][1][0])
                    break
                if d and d[1] != "t" and d[2].get("k") in ("ref", "use"):
                    cur = (d[2].get("p") or d[2]["o"][1])[0]
                    continue
                break
            if not rep.anchor("R4", f"{name}: shape() argument of InlineCache::get", hs is not None):
                continue
            T, _, _ = taint(f, gt["dest"][0])
            k = -1
            for b, t in f.calls():
                c = cn(t)
                if not (c.split("::")[-1] in ("index", "index_mut") and len(t["args"]) >= 2):
                    continue
                if not storage_receiver(f, t):
                    continue
                if not arg_hits({"args": t["args"][1:]}, T):
                    continue
                if b not in f.reach_from(f.succs(gb)):
                    continue
                k += 1
                n += 1
                hr = holder(f, op_local(t["args"][0]))
                same = hr == hs
                vn = f.var_name(hr) or f"_{hr}"
                vs = f.var_name(hs) or f"_{hs}"
                akey = f"{name}:cached-index:{gi}:{k}"
                if not same and akey in AUDITED_R4 and audit_holds(db, AUDITED_R4[akey][1]):
                    rep.ob("R4", akey + ":audited-unreachable", True, loc=f.loc(b))
                    continue
                rep.ob("R4", akey, same,
                       f"{name}: the slot cached for the shape of `{vs}` indexes the storage of `{vn}` at {f.loc(b)} — that "
                       f"object's layout was never validated (delete/reconfigure a property on it and the index is stale or "
                       f"out of bounds)", loc=f.loc(b))
    rep.floor("R4", "cached storage index sites", n, 6)


def r5(db, rep):
    rep.rule("R5", "UniqueShape (dictionary mode) gets a new identity whenever its layout changes: after removing a key / "
                   "changing a slot width / replacing the prototype every path returns a shape built by UniqueShape::new")
    def fn(name):
        return [f for f in db.fns.values() if cname(f.id) == name and f.id.startswith("boa_engine::object::shape::unique_shape")]
    fs = fn("UniqueShape::remove_property_transition")
    if rep.anchor("R5", "UniqueShape::remove_property_transition", fs):
        f = fs[0]
        removes = [b for b, t in f.calls() if cn(t).split("::")[-1] in ("remove", "shift_remove", "swap_remove") and
                   base_ident(cn(t).rsplit("::", 1)[0]) in ("Vec", "ThinVec")]
        news = set(b for b, t in f.calls() if cn(t) == "UniqueShape::new")
        if rep.anchor("R5", "keys.remove in remove_property_transition", removes):
            path = f.path_avoiding(f.succs(removes[0]), news, is_ret(f))
            rep.ob("R5", "UniqueShape::remove_property_transition:new-identity", bool(news) and path is None,
                   "UniqueShape::remove_property_transition can return without creating a new UniqueShape after removing a "
                   "key — slots cached for the old layout stay valid by identity and read shifted storage", loc=f.span)
    fs = fn("UniqueShape::change_attributes_transition")
    if rep.anchor("R5", "UniqueShape::change_attributes_transition", fs):
        f = fs[0]
        news = set(b for b, t in f.calls() if cn(t) == "UniqueShape::new")
        ok = True
        n = 0
        for b in sorted(f.reachable()):
            for st in f.blocks[b]["s"]:
                r = st["r"]
                if r.get("k") == "agg" and r.get("adt", "").endswith("ChangeTransitionAction") and r.get("variant") in ("Insert", "Remove"):
                    n += 1
                    if f.path_avoiding(f.succs(b) or [b], news, is_ret(f)) is not None and b not in news:
                        ok = False
        rep.ob("R5", "UniqueShape::change_attributes_transition:new-identity", ok and n >= 2 and bool(news),
               "UniqueShape::change_attributes_transition can report a width change (Insert/Remove) while keeping the same "
               "shape identity", loc=f.span)
    fs = fn("UniqueShape::change_prototype_transition")
    if rep.anchor("R5", "UniqueShape::change_prototype_transition", fs):
        f = fs[0]
        news = set(b for b, t in f.calls() if cn(t) == "UniqueShape::new")
        rep.ob("R5", "UniqueShape::change_prototype_transition:new-identity",
               bool(news) and f.path_avoiding([0], news, is_ret(f)) is None,
               "UniqueShape::change_prototype_transition can return the same shape identity after the prototype changed — "
               "prototype-chain slots cached for this shape stay valid", loc=f.span)


SEARCHES = {"position", "rposition", "binary_search", "binary_search_by", "binary_search_by_key"}
SHRINKERS = {"retain", "retain_mut", "remove", "swap_remove", "truncate", "clear", "drain", "pop", "dedup", "dedup_by",
             "dedup_by_key", "insert", "swap", "sort", "sort_by", "sort_by_key", "sort_unstable", "sort_unstable_by",
             "sort_unstable_by_key", "reverse", "rotate_left", "rotate_right", "split_off", "take"}
VIA = ("deref", "deref_mut", "iter", "iter_mut", "as_slice", "as_mut_slice", "borrow", "borrow_mut", "as_ref", "as_mut")


def _indexes_with(g, tainted):
    """blocks of g where a place is indexed by a tainted local (`x[i]` on a slice is a projection, not a call)"""
    out = []
    T = set(tainted)
    for l in list(tainted):
        T |= taint(g, l)[0]
    for b in g.reachable():
        for st in g.blocks[b]["s"]:
            r = st["r"]
            places = [st["p"]]
            if r.get("k") in ("use", "cast", "un") and r["o"][0] in ("c", "m"):
                places.append(r["o"][1])
            elif r.get("k") in ("ref", "discr", "rawptr", "len"):
                places.append(r["p"])
            for pl in places:
                if any(isinstance(e, str) and e.startswith("i:") and int(e[2:]) in T for e in pl[1:]):
                    out.append(b)
        t = g.blocks[b]["t"]
        if t["t"] == "call" and (t.get("rf") or callee(t) or "").split("::")[-1] in ("index", "index_mut", "get_unchecked",
                                                                                      "get_unchecked_mut") \
                and len(t["args"]) >= 2 and op_local(t["args"][1]) in T:
            out.append(b)
    return out


def r6(db, rep):
    from facts import provenance
    rep.rule("R6", "a position found in the inline cache's entry list is not used as an index after the list was shrunk or "
                   "reordered: between a search (position / binary_search) on a container and an indexing of the same container "
                   "with its result there is no retain / remove / swap_remove / truncate / sort … of that container")
    n = 0
    scanned = 0
    for f in db.fns.values():
        if not f.id.startswith(("boa_engine::vm::inline_cache", "boa_engine::object::shape", "boa_engine::object::property_map")):
            continue
        if "{closure" in f.id or "::tests" in f.id:
            continue
        scanned += 1
        if not any(f.mentions(m) for m in SEARCHES):
            continue
        name = cname(f.id)
        k = 0
        for pb, pt in f.calls():
            m = (pt.get("rf") or callee(pt) or "").split("::")[-1]
            if m not in SEARCHES or not pt["args"] or not pt.get("dest") or "to" not in pt:
                continue
            recv = op_local(pt["args"][0])
            if recv is None:
                continue
            base = provenance(f, recv, extra=VIA)
            n += 1
            res = pt["dest"][0]
            T = taint(f, res)[0]
            after_p = f.reach_from([pt["to"]])
            bad = None
            for mb, mt in f.calls():
                if mb not in after_p or mb == pb or (mt.get("rf") or callee(mt) or "").split("::")[-1] not in SHRINKERS:
                    continue
                if not mt["args"] or op_local(mt["args"][0]) is None:
                    continue
                if not (provenance(f, op_local(mt["args"][0]), extra=VIA) & base - {recv}):
                    continue
                after_m = f.reach_from(f.succs(mb))
                # (a) direct indexing with the stale result
                for ub in _indexes_with(f, {res}):
                    if ub in after_m:
                        bad = (mb, ub, "indexes")
                # (b) the result handed to a closure that captured the container and indexes it with its parameter
                for ub, ut in f.calls():
                    if ub not in after_m or not arg_hits(ut, T):
                        continue
                    for a in ut["args"]:
                        al = op_local(a)
                        for r in (roots(f, al) if al is not None else []):
                            if r[0] == "rv" and r[2].get("k") == "agg" and r[2].get("ak") == "closure":
                                caps = [op_local(o) for o in r[2]["ops"] if op_local(o) is not None]
                                if any(provenance(f, c, extra=VIA) & base - {recv} for c in caps):
                                    g = db.fns.get(r[2]["def"])
                                    if g is not None and _indexes_with(g, set(range(2, g.rec["argc"] + 1))):
                                        bad = (mb, ub, "passes it to a closure that indexes")
            rep.ob("R6", f"{name}:{m}:{k}:index-still-valid", bad is None,
                   f"{name} searches a container ({f.loc(pb)}), then calls "
                   f"{cn(f.blocks[bad[0]]['t']) if bad else ''} on it ({f.loc(bad[0]) if bad else ''}) and afterwards "
                   f"{bad[2] if bad else ''} the container with the position found before ({f.loc(bad[1]) if bad else ''}): after a "
                   f"dead entry in front of the hit was swept, the index names another entry (the slot cached for a different "
                   f"shape) or is out of bounds", loc=f.loc(pb))
            k += 1
    rep.analysed["R6.searches examined"] = n
    # no search exists in these modules today (the cache walks its entries with a re-validated counter); the floor is on
    # the functions scanned, the positive example is selftest/c06_r6_stale_index.patch
    rep.floor("R6", "functions of the inline cache / shape / property map scanned for searches", scanned, 150)


def run(db, rep, tier):
    r1(db, rep)
    r2(db, rep)
    r3(db, rep)
    r4(db, rep)
    r5(db, rep)
    r6(db, rep)
    rep.assumptions += [
        "Shape values are immutable descriptions of a layout (shape transitions create new shapes; checked for the "
        "property map's own field only)",
    ]
