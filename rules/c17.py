"""C17 — module graphs evaluate each module once, in dependency order.

Decided clauses (typestate of the module record):
  R1  status transitions: the relation extracted from every closure passed to ModuleStatus::transition (from-variant by
      the discriminant arm, to-variant by the aggregate returned) is a subset of the specification's
      {Unlinked→Linking, Linking→Unlinked, Linking→PreLinked, PreLinked→Linked, Linked→Evaluating,
       Evaluating→EvaluatingAsync, Evaluating→Evaluated, EvaluatingAsync→Evaluated, X→X}; every edge occurs; nothing
      leaves Evaluated; `status` is assigned directly only by the constructor and by `transition`
  R2  the module body runs at most once: SourceTextModule::execute is called only from inner_evaluate / execute_async /
      async_module_execution_fulfilled, and in inner_evaluate not on the arms where the status is already
      Evaluating / EvaluatingAsync / Evaluated
  R4  [[DFSAncestorIndex]] only decreases while a module is on the stack: every store through the reference handed out by
      ModuleStatus::ancestor_index_mut writes min(current value, x) — either the result of Ord::min one of whose operands
      is a load of the same reference, or a value stored under a dominating `x < current` test (Tarjan's low-link; a
      store that can raise it closes part of a cycle early, so a later failure never reaches those modules)
  R5  the two ways a module leaves the DFS stack agree on its cycle root: in every transition closure that can produce
      both ModuleStatus::Evaluated and ModuleStatus::EvaluatingAsync, the `cycle_root` field of the two results comes
      from the same sources (the specification sets [[CycleRoot]] in one step for both: 16.b.iv.viii) — a member that keeps
      itself as root answers "evaluated, no error" for a cycle that is still running or has failed
Not decided: DFS order, pending-dependency arithmetic.
"""
from facts import (cn, callee, cname, roots, op_local, place_fields)

CRATES = ["boa_engine", "boa_ast"]
EXPLANATION = (
    "Typestate extraction over the MIR of boa_engine::module::source: every closure handed to ModuleStatus::transition "
    "is explored path-sensitively per incoming enum variant to collect the variants it can return; who-may-call and "
    "dominance rules protect SourceTextModule::execute. Instances are (closure, from-variant) pairs and call sites. "
    "Holds for all module graphs because the status field changes only through these closures. Not decided: DFS "
    "order, cycle roots, async dependency counters.")

MS = "boa_engine::module::source::ModuleStatus"
ALLOWED = {("Unlinked", "Linking"), ("Linking", "Unlinked"), ("Linking", "PreLinked"), ("PreLinked", "Linked"),
           ("Linked", "Evaluating"), ("Evaluating", "EvaluatingAsync"), ("Evaluating", "Evaluated"),
           ("EvaluatingAsync", "Evaluated")}
EXECUTE_CALLERS = {"SourceTextModule::inner_evaluate": "first evaluation of a Linked module",
                   "SourceTextModule::execute_async": "ExecuteAsyncModule for a module with top-level await",
                   "source::async_module_execution_fulfilled": "ancestors whose async dependencies completed (sync body)"}


def transitions_of(g, names):
    """{(from, to)} of a closure `fn(ModuleStatus) -> ModuleStatus` (argument is local 2)"""
    rel = set()
    agg_blocks = {}
    same_blocks = set()
    for x in g.reachable():
        for s in g.blocks[x]["s"]:
            if s["p"] == [0] and s["r"].get("k") == "agg" and s["r"].get("adt") == MS:
                agg_blocks.setdefault(x, set()).add(s["r"]["variant"])
            if s["p"] == [0] and s["r"].get("k") == "use" and s["r"]["o"][0] in ("c", "m") and s["r"]["o"][1] == [2]:
                same_blocks.add(x)
    sw = None
    for sb in g._rpo():
        tt = g.blocks[sb]["t"]
        if tt["t"] != "switch":
            continue
        ll = op_local(tt["o"])
        d = g.single_def(ll) if ll is not None else None
        if d and d[1] != "t" and d[2].get("k") == "discr" and d[2]["p"] == [2]:
            sw = (sb, tt)
            break
    if sw is None:
        for x, vs in agg_blocks.items():
            for v in vs:
                rel.add(("*", v))
        return rel
    for i, nm in enumerate(names):
        known = {2: ("v", str(i))}
        for x, vs in agg_blocks.items():
            if g.path_search([sw[0]], set(), lambda b, x=x: b == x, known=known) is not None:
                for v in vs:
                    rel.add((nm, v))
        for x in same_blocks:
            if g.path_search([sw[0]], set(), lambda b, x=x: b == x, known=known) is not None:
                rel.add((nm, nm))
    return rel


def r1(db, rep):
    rep.rule("R1", "module status transition relation ⊆ the specification's; every edge present; Evaluated is terminal")
    adt = db.adts.get(MS)
    if not rep.anchor("R1", "enum " + MS, adt):
        return
    names = [v["name"] for v in adt["variants"]]
    found = set()
    n = 0
    for f in db.fns.values():
        if not f.id.startswith("boa_engine::module::source") or not f.mentions("transition"):
            continue
        for b, t in f.calls():
            if cn(t) != "ModuleStatus::transition" or callee(t) is None or "synthetic" in callee(t):
                continue
            if len(t["args"]) < 2:
                continue
            l = op_local(t["args"][1])
            clos = [r[2]["def"] for r in (roots(f, l) if l is not None else []) if r[0] == "rv" and r[2].get("ak") == "closure"]
            if not clos:
                rep.violation("R1", f"{cname(f.id)}:opaque-transition", f"{cname(f.id)} passes a non-closure to transition ({f.loc(b)})")
                continue
            g = db.fns.get(clos[0])
            if g is None:
                continue
            rel = transitions_of(g, names)
            for (a, c) in sorted(rel):
                n += 1
                ok = a == c or (a, c) in ALLOWED
                if a != c:
                    found.add((a, c))
                rep.ob("R1", f"{cname(f.id).split('::{closure')[0]}:{a}->{c}", ok,
                       f"{cname(f.id)}: module status can go {a} -> {c} ({f.loc(b)}), which is not a transition of the "
                       f"specification's module record — e.g. leaving Evaluated re-runs a module body", loc=f.loc(b))
    rep.floor("R1", "extracted transitions", n, 9)
    for e in sorted(ALLOWED):
        rep.ob("R1", f"edge-present:{e[0]}->{e[1]}", e in found,
               f"no transition closure implements {e[0]} -> {e[1]} any more (the state machine lost a step: modules would "
               f"get stuck or skip a phase)")
    # direct writers of a status value
    for f in db.fns.values():
        if not f.id.startswith("boa_engine::module::source") or not f.mentions(MS):
            continue
        for b in f.reachable():
            for s in f.blocks[b]["s"]:
                if s["r"].get("k") == "agg" and s["r"].get("adt") == MS and s["p"] != [0]:
                    base = cname(f.id).split("::{closure")[0]
                    rep.ob("R1", f"direct-status-write:{base}:{s['r']['variant']}",
                           base in ("SourceTextModule::new", "ModuleStatus::transition") and s["r"]["variant"] == "Unlinked",
                           f"{cname(f.id)} builds ModuleStatus::{s['r']['variant']} outside a transition closure ({f.loc(b)})",
                           loc=f.loc(b))


def r2(db, rep):
    rep.rule("R2", "SourceTextModule::execute (runs the module body) is called only by the evaluation algorithm, and in "
                   "inner_evaluate only when the status is Linked")
    n = 0
    for f in db.fns.values():
        if not f.id.startswith("boa_engine::") or not f.mentions("execute"):
            continue
        for b, t in f.calls():
            if cn(t) != "SourceTextModule::execute":
                continue
            n += 1
            base = cname(f.id).split("::{closure")[0]
            rep.ob("R2", f"execute-caller:{base}", base in EXECUTE_CALLERS,
                   f"{cname(f.id)} calls SourceTextModule::execute ({f.loc(b)}) outside the evaluation algorithm — a module "
                   f"body could run twice", loc=f.loc(b))
            if base == "SourceTextModule::inner_evaluate":
                adt = db.adts[MS]
                idx = {v["name"]: str(i) for i, v in enumerate(adt["variants"])}
                ok = False
                for sb in f._rpo():
                    tt = f.blocks[sb]["t"]
                    if tt["t"] != "switch":
                        continue
                    ll = op_local(tt["o"])
                    d = f.single_def(ll) if ll is not None else None
                    if not d or d[1] == "t" or d[2].get("k") != "discr" or MS.split("::")[-1] not in f.locals[d[2]["p"][0]]:
                        continue
                    if not f.dominates(sb, b):
                        continue
                    cases = dict(zip(tt["vals"], tt["tgts"]))
                    bad_t = [cases.get(idx[v], tt["tgts"][-1]) for v in ("Evaluating", "EvaluatingAsync", "Evaluated")]
                    ok = all(b not in f.reach_from([x], avoid={sb}) for x in bad_t)
                    break
                rep.ob("R2", "inner_evaluate:execute-only-when-Linked", ok,
                       "inner_evaluate can reach SourceTextModule::execute on a path where the status was Evaluating / "
                       "EvaluatingAsync / Evaluated — the module body would run again", loc=f.loc(b))
    rep.floor("R2", "execute call sites", n, 3)


def r3(db, rep):
    rep.rule("R3", "a module is fetched once: in SourceTextModule::inner_load the host loader job is created only when the "
                   "module was newly added to state.visited and only on the miss edge of the loaded_modules lookup")
    fs = [f for f in db.fns.values() if cname(f.id) == "SourceTextModule::inner_load" and "{closure" not in f.id]
    if not rep.anchor("R3", "SourceTextModule::inner_load", fs):
        return
    f = fs[0]
    # the loader runs in a job: the job that awaits finish_loading_imported_module is enqueued here
    loads = [b for b, t in f.calls() if cn(t) in ("Context::enqueue_job", "NativeAsyncJob::with_realm", "NativeAsyncJob::new")]
    inner = [g for g in db.all_nested(f)[1:] if any("finish_loading_imported_module" in (callee(t) or "") for _, t in g.calls())]
    if not rep.anchor("R3", "job closure calling finish_loading_imported_module (HostLoadImportedModule)", inner):
        return
    if not rep.anchor("R3", "enqueue of the loader job in inner_load", loads):
        return
    from facts import bool_switch, bool_origin, taint
    for i, lb in enumerate(loads):
        visited_ok = False
        miss_ok = False
        for sb in f.dominators().get(lb, ()):
            bs = bool_switch(f, sb)
            if bs:
                l, fb, tb = bs
                pol, root = bool_origin(f, l)
                if root[0] == "call" and cn(root[2]).split("::")[-1] == "insert":
                    good = tb if pol else fb
                    if lb in f.reach_from([good], avoid={sb}) and lb not in f.reach_from([fb if pol else tb], avoid={sb}):
                        visited_ok = True
            t = f.blocks[sb]["t"]
            if t["t"] == "switch":
                l = op_local(t["o"])
                d = f.single_def(l) if l is not None else None
                if d and d[1] != "t" and d[2].get("k") == "discr" and len(d[2]["p"]) == 1:
                    src = d[2]["p"][0]
                    if "Option<boa_engine::module::Module>" in f.locals[src].replace("core::option::", ""):
                        rs = roots(f, src)
                        if any(r[0] == "call" and cn(r[2]).split("::")[-1] in ("cloned", "get") for r in rs):
                            none_t = t["tgts"][t["vals"].index("0")] if "0" in t["vals"] else t["tgts"][-1]
                            some_t = [x for x in t["tgts"] if x != none_t]
                            if lb in f.reach_from([none_t], avoid={sb}) and lb not in f.reach_from(some_t, avoid={sb}):
                                miss_ok = True
        rep.ob("R3", f"inner_load:loader-call:{i}:only-for-new-module", visited_ok,
               "inner_load can ask the host loader for a module's dependencies although the module was already visited — "
               "dependencies would be fetched (and instantiated) more than once", loc=f.loc(lb))
        rep.ob("R3", f"inner_load:loader-call:{i}:only-on-cache-miss", miss_ok,
               "inner_load asks the host loader for a specifier that is already in [[LoadedModules]] — the module would be "
               "fetched again and could be instantiated twice", loc=f.loc(lb))


def r4(db, rep):
    from facts import provenance
    rep.rule("R4", "every write through ModuleStatus::ancestor_index_mut stores min(current, x): [[DFSAncestorIndex]] never "
                   "increases while the module is on the DFS stack")
    n = 0
    for f in db.fns.values():
        if not f.id.startswith("boa_engine::module::source") or not f.mentions("ancestor_index_mut"):
            continue
        if cname(f.id).endswith("ancestor_index_mut"):
            continue
        k = 0
        for b in sorted(f.reachable()):
            for st in f.blocks[b]["s"]:
                p = st["p"]
                if len(p) != 2 or p[1] != "*" or "&mut usize" not in f.locals[p[0]]:
                    continue
                ref = p[0]
                prov = provenance(f, ref, extra=("js_expect", "branch", "unwrap", "expect", "ok_or", "ok_or_else"))
                from_idx = False
                for q in set(prov) | {ref}:
                    for bb, i, rr in f.defs().get(q, []):
                        if i == "t" and cn(rr).endswith("ancestor_index_mut"):
                            from_idx = True
                if not from_idx:
                    continue
                n += 1
                r = st["r"]
                ok = False
                vl = op_local(r["o"]) if r.get("k") == "use" else None
                same_ref = lambda o: any(x[0] == "place" and x[1][0] in (set(prov) | {ref}) and x[1][1:] == ["*"]
                                         for x in (roots(f, op_local(o)) if op_local(o) is not None else []))
                if vl is not None:
                    for x in roots(f, vl):
                        if x[0] == "call" and cn(x[2]).split("::")[-1] == "min" and any(same_ref(a) for a in x[2]["args"]):
                            ok = True
                if not ok and vl is not None:
                    # `if x < *idx { *idx = x }`
                    from facts import bool_switch
                    for sb in f.dominators().get(b, ()):
                        bs = bool_switch(f, sb)
                        if not bs:
                            continue
                        d = f.single_def(bs[0])
                        if d and d[1] != "t" and d[2].get("k") == "bin" and d[2]["op"] in ("Lt", "Le", "Gt", "Ge"):
                            a_, b_ = d[2]["a"], d[2]["b"]
                            val_roots = {json_key(x) for x in roots(f, vl)}
                            la, lb = op_local(a_), op_local(b_)
                            a_is_val = la is not None and {json_key(x) for x in roots(f, la)} & val_roots
                            b_is_val = lb is not None and {json_key(x) for x in roots(f, lb)} & val_roots
                            less_edge = None
                            if d[2]["op"] in ("Lt", "Le") and a_is_val and same_ref(b_):
                                less_edge = bs[2]
                            if d[2]["op"] in ("Gt", "Ge") and b_is_val and same_ref(a_):
                                less_edge = bs[2]
                            if less_edge is not None and b in f.reach_from([less_edge], avoid={sb}) and \
                                    b not in f.reach_from([bs[1]], avoid={sb}):
                                ok = True
                rep.ob("R4", f"{cname(f.id)}:ancestor-index-store:{k}:min-update", ok,
                       f"{cname(f.id)} writes [[DFSAncestorIndex]] ({f.file}:{st.get('ln')}) with a value that is not "
                       f"min(current, x): a second back edge can raise the index again, part of a cycle is then closed early and "
                       f"marked evaluated, and a later error in the rest of the cycle never reaches those modules",
                       loc=f"{f.file}:{st.get('ln')}")
                k += 1
    rep.floor("R4", "stores through ancestor_index_mut", n, 2)


def r5(db, rep):
    rep.rule("R5", "Evaluated and EvaluatingAsync results of one transition closure take their cycle_root from the same sources")
    n = 0
    for f in db.fns.values():
        if not f.id.startswith("boa_engine::module::source") or "{closure" not in f.id or not f.mentions("cycle_root"):
            continue
        sig = {}
        for b in f.reachable():
            for st in f.blocks[b]["s"]:
                r = st["r"]
                if r.get("k") == "agg" and r.get("adt") == MS and r.get("variant") in ("Evaluated", "EvaluatingAsync") \
                        and "cycle_root" in (r.get("fields") or []):
                    o = r["ops"][r["fields"].index("cycle_root")]
                    l = op_local(o)
                    s_ = set()
                    for rt in (roots(f, l) if l is not None else []):
                        if rt[0] == "call":
                            s_.add("call " + cn(rt[2]))
                        elif rt[0] == "place":
                            flds = place_fields(rt[1])
                            s_.add("field " + (flds[-1].split(".")[-1] if flds else "?") if flds else "place upvar")
                        else:
                            s_.add(rt[0])
                    sig.setdefault(r["variant"], set()).update(s_)
        if len(sig) < 2:
            continue
        n += 1
        base = cname(f.id).split("::{closure")[0]
        rep.ob("R5", f"{base}:cycle-root-sources-agree:{n - 1}", sig["Evaluated"] == sig["EvaluatingAsync"],
               f"{cname(f.id)}: the Evaluated result takes cycle_root from {sorted(sig['Evaluated'])} but the EvaluatingAsync result "
               f"from {sorted(sig['EvaluatingAsync'])}: a synchronously executed non-root member of a cycle keeps itself as its "
               f"cycle root, so a later importer does not wait for (or fail with) the real root", loc=f.span)
    rep.floor("R5", "closures producing both Evaluated and EvaluatingAsync", n, 1)


def json_key(x):
    import json
    return json.dumps(x, sort_keys=True, default=str)


def run(db, rep, tier):
    r1(db, rep)
    r2(db, rep)
    r3(db, rep)
    r4(db, rep)
    r5(db, rep)
    # R6 = C04-R9: [[HasTLA]] is contains(module, AwaitExpression); the visitor must not look into arrow functions for it
    import c04
    c04.r9(db, rep)
