"""C10 — garbage collection is unobservable to scripts and leaves nothing behind.

Decided clauses:
  R1  Trace completeness (type-level): for every `impl Trace` of a workspace ADT, every field that the
      `trace` body does not visit (ignored by #[unsafe_ignore_trace], by an empty/custom body, or forgotten)
      has a type that cannot hold a GC edge.  A GC edge in an untraced field is an object the collector
      frees while the script can still reach it.
  R2  kept-alive protocol: WeakRef.prototype.deref adds the target to the kept-alive list before returning
      it; every job executor clears the list after each promise-job batch.
  R3  Context.kept_alive is written only by the functions of that protocol.
"""
import re
from facts import (cn, callee, cname, roots, op_local, taint, arg_hits, place_fields, base_ident, call_blocks)

CRATES = None   # all workspace crates: Trace impls live everywhere
EXPLANATION = (
    "Type-reachability rule over every `impl boa_gc::Trace` of the workspace (boa_engine, boa_gc, boa_runtime, "
    "boa_ast, boa_interner, cli …): the fields visited by the trace body are read from its MIR (field projections "
    "of self), and for every unvisited field the least fixpoint `needs_trace(type)` (GC pointer types, ADT fields "
    "with generic substitution, container type arguments, dyn Trait with Trace supertrait, types with a non-empty "
    "hand-written Trace impl) must be false. Plus path rules for the WeakRef kept-alive protocol. Holds for every "
    "program and collection schedule because it is a property of the types. Not decided: trace equality under "
    "schedules; leak-freedom after context drop.")

TRACE = "boa_gc::trace::Trace"
# heap pointer types of boa_gc: holding one is holding a GC edge
GC_POINTERS = {
    "boa_gc::pointers::gc::Gc", "boa_gc::pointers::weak::WeakGc", "boa_gc::pointers::ephemeron::Ephemeron",
    "boa_gc::pointers::weak_map::WeakMap", "boa_gc::pointers::gc::GcErased", "boa_gc::pointers::weak_map::RawWeakMap",
}
# fields whose untraced GC-capable type is sound for a documented reason (audited by reading)
AUDITED_UNTRACED = {
}
KEPT_WRITERS = {
    "WeakRef::constructor": "AddToKeptObjects(target) on construction (spec step)",
    "WeakRef::deref": "AddToKeptObjects(target)",
    "Context::clear_kept_objects": "ClearKeptObjects",
    "ContextBuilder::build": "initialisation",
}


class TypeEnv:
    def __init__(self, db):
        self.db = db
        self.memo = {}
        self.nonempty_impl = set()   # ADT ids with a Trace impl whose trace body does something
        self.trace_impl = {}         # ADT id -> impl record

    def needs(self, t, bounds=None, stack=()):
        """can a value of structured type t hold a GC edge?  returns a witness string or None"""
        k = t[0]
        if k in ("prim", "lt", "const", "fnptr", "fndef", "closure"):
            return None
        if k in ("ref", "ptr"):
            return self.needs(t[2], bounds, stack)
        if k in ("slice", "array"):
            return self.needs(t[1], bounds, stack)
        if k == "tuple":
            for x in t[1]:
                w = self.needs(x, bounds, stack)
                if w:
                    return w
            return None
        if k == "param":
            if bounds and any(b[0] == t[2] and b[1] == TRACE for b in bounds):
                return f"type parameter {t[2]}: Trace"
            return None
        if k == "dyn":
            if TRACE in t[1]:
                return "dyn " + "+".join(x.split("::")[-1] for x in t[1])
            return None
        if k == "adt":
            path, args = t[1], t[2]
            if path in GC_POINTERS:
                return path.split("::")[-1]
            targs = [a for a in args if a[0] not in ("lt", "const")]
            key = (path, repr(targs), repr(bounds) if any(_has_param(a) for a in targs) else "")
            if key in self.memo:
                return self.memo[key]
            if key in stack:
                return None   # least fixpoint: assume false on a cycle
            st = stack + (key,)
            w = None
            adt = self.db.adts.get(path)
            if w is None and adt is not None:
                gen = [g for g in adt["generics"]]
                # positional substitution over all generic params (lifetimes included in args)
                for v in adt["variants"]:
                    for fl in v["fields"]:
                        ft = _subst(fl["t"], args)
                        ww = self.needs(ft, bounds, st)
                        if ww:
                            w = f"{path.split('::')[-1]}.{fl['n']} -> {ww}"
                            break
                    if w:
                        break
                if w is None and path in self.nonempty_impl:
                    w = f"{path.split('::')[-1]} (non-empty hand-written Trace impl over erased storage)"
            elif w is None:
                # foreign container: its type arguments
                for a in targs:
                    ww = self.needs(a, bounds, st)
                    if ww:
                        w = f"{path.split('::')[-1]}<..> -> {ww}"
                        break
            self.memo[key] = w
            return w
        return None


def _has_param(t):
    if t[0] == "param":
        return True
    for x in t[1:]:
        if isinstance(x, list):
            if x and isinstance(x[0], str):
                if _has_param(x):
                    return True
            else:
                for y in x:
                    if isinstance(y, list) and y and isinstance(y[0], str) and _has_param(y):
                        return True
    return False


def _subst(t, args):
    k = t[0]
    if k == "param":
        i = t[1]
        if i < len(args) and args[i][0] not in ("lt", "const"):
            return args[i]
        return t
    if k in ("ref", "ptr"):
        return [k, t[1], _subst(t[2], args)]
    if k in ("slice", "array"):
        return [k, _subst(t[1], args)]
    if k == "tuple":
        return [k, [_subst(x, args) for x in t[1]]]
    if k == "adt":
        return [k, t[1], [_subst(a, args) if a[0] not in ("lt", "const") else a for a in t[2]]]
    return t


def touched_fields(f):
    """(variant|None, field-name) pairs of `self` projected anywhere in a trace body; 'ALL' if self escapes whole"""
    out = set()
    whole = False
    selfs = {1}
    # locals that alias self (reborrows / copies of the reference)
    changed = True
    while changed:
        changed = False
        for blk in f.blocks:
            for s in blk["s"]:
                r = s["r"]
                p = s["p"]
                if len(p) != 1 or p[0] in selfs:
                    continue
                src = None
                if r.get("k") == "use" and r["o"][0] in ("c", "m") and all(e == "*" for e in r["o"][1][1:]):
                    src = r["o"][1][0]
                elif r.get("k") == "ref" and all(e == "*" for e in r["p"][1:]):
                    src = r["p"][0]
                if src in selfs:
                    selfs.add(p[0])
                    changed = True

    def visit(place):
        if place[0] not in selfs:
            return
        var = None
        for e in place[1:]:
            if isinstance(e, str) and e.startswith("v:"):
                var = e[2:]
            elif isinstance(e, str) and e.startswith("f:"):
                nm = e[2:].split(".")[-1]
                out.add((var, nm))
                return
    for blk in f.blocks:
        for s in blk["s"]:
            r = s["r"]
            if "p" in r and isinstance(r["p"], list):
                visit(r["p"])
            for key in ("o", "a", "b"):
                o = r.get(key)
                if o and o[0] in ("c", "m"):
                    visit(o[1])
            for o in r.get("ops", []):
                if o[0] in ("c", "m"):
                    visit(o[1])
        t = blk["t"]
        if t["t"] == "call":
            for i, a in enumerate(t["args"]):
                if a[0] in ("c", "m"):
                    visit(a[1])
                    if len(a[1]) == 1 and a[1][0] in selfs and not blk.get("c"):
                        c = cn(t)
                        if c.split("::")[-1] == "finalize":
                            continue   # run_finalizer's own Finalize::finalize(self)
                        # passing self whole to something that is not a plain accessor: assume it may visit anything
                        whole = True
    return out, whole


def r1(db, rep):
    rep.rule("R1", "for every `impl Trace for <workspace ADT>`: a field not visited by the trace body must have a type that "
                   "cannot hold a GC edge (needs_trace = false)")
    env = TypeEnv(db)
    impls = [i for i in db.impls if i["trait"] == TRACE]
    rep.floor("R1", "Trace impls in the workspace", len(impls), 400)
    trace_fn = {}
    for i in impls:
        for it in i["items"]:
            if it.endswith("::trace") and it in db.fns:
                trace_fn[i["id"]] = db.fns[it]
    # which local ADTs have a non-empty hand-written/derived trace body
    for i in impls:
        st = i["self_t"]
        if st[0] != "adt":
            continue
        f = trace_fn.get(i["id"])
        env.trace_impl[st[1]] = i
        manual = i["exp"] is None or i["exp"][0] != "Derive"
        if manual and f is not None and any(True for _ in f.calls()):
            # hand-written body that traces something: if the fields do not show a GC edge the storage is
            # type-erased (NaN-boxed value, tagged pointer) and the type itself counts as GC-capable
            env.nonempty_impl.add(st[1])
    checked = 0
    nfields = 0
    kinds = {}
    for i in sorted(impls, key=lambda x: x["id"]):
        st = i["self_t"]
        kind = "manual" if i["exp"] is None else f"{i['exp'][0]}:{i['exp'][1]}"
        kinds[kind] = kinds.get(kind, 0) + 1
        if st[0] != "adt" or st[1] not in db.adts:
            continue
        adt = db.adts[st[1]]
        if st[1] in GC_POINTERS or st[1].startswith("boa_gc::pointers::") or st[1].startswith("boa_gc::internals::") \
                or st[1] == "boa_gc::cell::GcRefCell":
            continue   # the collector's own pointer types (C09)
        f = trace_fn.get(i["id"])
        if f is None:
            rep.violation("R1", f"{st[1]}:trace-body-missing", f"impl Trace for {st[1]} has no analysable trace body")
            continue
        touched, whole = touched_fields(f)
        checked += 1
        bounds = adt.get("bounds", [])
        multi = len(adt["variants"]) > 1 or adt["kind"] == "enum"
        for v in adt["variants"]:
            for fl in v["fields"]:
                nfields += 1
                vis = (v["name"] if multi else None, fl["n"]) in touched or (None, fl["n"]) in touched \
                    or any(n == fl["n"] and (vv is None or vv == v["name"]) for vv, n in touched)
                if vis or whole:
                    continue
                w = env.needs(fl["t"], bounds)
                key = f"{st[1]}:{v['name'] + '.' if multi else ''}{fl['n']}"
                if w and key in AUDITED_UNTRACED:
                    rep.ob("R1", key + ":audited", True, loc=adt["span"])
                    continue
                rep.ob("R1", key, not w,
                       f"impl Trace for {st[1]} ({kind}) does not visit field `{fl['n']}`"
                       f"{' of variant ' + v['name'] if multi else ''} : {fl['ty']} which can hold a GC edge ({w}) — boa_gc counts "
                       f"a handle it never traces as a root: the target is retained as long as the owner lives and any cycle "
                       f"through this field is never reclaimed (leak after context drop; WeakRef sees it alive forever)", loc=adt["span"])
    rep.analysed["R1.Trace impl kinds"] = kinds
    rep.analysed["R1.ADT impls checked"] = checked
    rep.analysed["R1.fields examined"] = nfields
    rep.floor("R1", "ADT Trace impls checked", checked, 250)


def r2(db, rep):
    rep.rule("R2", "WeakRef.prototype.deref pushes the upgraded target on Context.kept_alive before returning it; every "
                   "JobExecutor that drains promise jobs calls clear_kept_objects after each batch")
    fs = [f for f in db.fns.values() if cname(f.id) == "WeakRef::deref" and f.id.startswith("boa_engine::builtins::weak")]
    if rep.anchor("R2", "WeakRef::deref", fs):
        f = fs[0]
        ups = [b for b, t in f.calls() if cn(t) == "WeakGc::upgrade"]
        ok = False
        if rep.anchor("R2", "WeakGc::upgrade in WeakRef::deref", ups):
            pushes = []
            for b, t in f.calls():
                if cn(t) == "Vec::push" and t["args"]:
                    l = op_local(t["args"][0])
                    for r in (roots(f, l, through_ref=True) if l is not None else []):
                        if r[0] == "place" and any(x.endswith("Context.kept_alive") for x in place_fields(r[1])):
                            pushes.append(b)
                    d = f.single_def(l) if l is not None else None
                    if d and d[1] != "t" and d[2].get("k") == "ref" and any(
                            x.endswith("Context.kept_alive") for x in place_fields(d[2]["p"])):
                        pushes.append(b)
            t = f.blocks[ups[0]]["t"]
            res = t["dest"][0]
            for sb in f.reach_from([t["to"]]):
                st = f.blocks[sb]["t"]
                if st["t"] != "switch":
                    continue
                l = op_local(st["o"])
                dd = f.single_def(l) if l is not None else None
                if dd and dd[1] != "t" and dd[2].get("k") == "discr" and dd[2]["p"] == [res]:
                    some_t = st["tgts"][st["vals"].index("1")] if "1" in st["vals"] else st["tgts"][-1]
                    path = f.path_avoiding([some_t], set(pushes), lambda x: f.blocks[x]["t"]["t"] == "ret")
                    ok = bool(pushes) and path is None
        rep.ob("R2", "WeakRef::deref:add-to-kept-objects", ok,
               "WeakRef.prototype.deref can return the target without adding it to Context.kept_alive — a collection "
               "in the same synchronous run may then observe it as collected", loc=f.span)
    # executors
    n = 0
    for i in db.impls:
        if i["trait"] != "boa_engine::job::JobExecutor":
            continue
        for it in i["items"]:
            f = db.fns.get(it)
            if f is None:
                continue
            for g in [f] + db.all_nested(f)[1:]:
                batch = []
                for b, t in g.calls():
                    if cn(t) in ("mem::take", "mem::replace") and len(t["dest"]) == 1 and \
                            "PromiseJob" in g.locals[t["dest"][0]]:
                        batch.append(b)
                if not batch:
                    continue
                clears = set(b for b, t in g.calls() if cn(t) == "Context::clear_kept_objects")
                for k, b in enumerate(batch):
                    n += 1
                    path = g.path_avoiding(g.succs(b), clears, lambda x, b=b: x == b)
                    rep.ob("R2", f"{cname(g.id)}:clear-after-batch:{k}", bool(clears) and path is None,
                           f"{cname(g.id)}: a promise-job batch (drained at {g.loc(b)}) can be followed by the next batch "
                           f"without ClearKeptObjects — WeakRef targets stay alive forever / liveness becomes "
                           f"batch-dependent", detail=[f"block path: {path}"], loc=g.loc(b))
    rep.floor("R2", "promise-job batch loops", n, 1)


def r3(db, rep):
    rep.rule("R3", "Context.kept_alive is written only by WeakRef construction/deref, clear_kept_objects and the builder")
    writers = {}
    for f in db.fns.values():
        if not f.id.startswith("boa_engine::") or not f.mentions("kept_alive"):
            continue
        for b in f.reachable():
            for s in f.blocks[b]["s"]:
                r = s["r"]
                pls = []
                if r.get("k") == "ref" and r.get("m"):
                    pls.append(r["p"])
                pls.append(s["p"])
                for pl in pls:
                    if any(x.endswith("Context.kept_alive") for x in place_fields(pl)):
                        writers.setdefault(cname(f.id).split("::{closure")[0], f)
                if r.get("k") == "agg" and r.get("adt", "").endswith("context::Context") and "kept_alive" in r.get("fields", []):
                    writers.setdefault(cname(f.id).split("::{closure")[0], f)
    rep.floor("R3", "writers of Context.kept_alive", len(writers), 2)
    for w, f in sorted(writers.items()):
        rep.ob("R3", f"kept_alive-writer:{w}", w in KEPT_WRITERS,
               f"{w} mutates Context.kept_alive outside the AddToKeptObjects/ClearKeptObjects protocol", loc=f.span)


def run(db, rep, tier):
    r1(db, rep)
    r2(db, rep)
    r3(db, rep)
    # the ephemeron fix-point decides which WeakMap / WeakRef / FinalizationRegistry targets survive a collection:
    # stopping it early makes collection observable (same instance as C09-R4)
    import c09
    c09.r4(db, rep)
    rep.assumptions += [
        "closures stored in traced types capture no GC values (boa's documented `unsafe` closure contract)",
        "foreign container types hold GC edges only through their type arguments",
    ]
