"""C04 — binding-placement and operand shortcuts never change program behaviour.

Decided clauses:
  R1  the three scope visitors (collector, escape analyzer, index assigner) override the same scope-bearing
      visit_* methods (a node whose scope one of them skips gets bindings placed with stale escape/index data)
  R2  eval/with force escapes: every BindingEscapeAnalyzer method that enters a node which may contain a direct
      eval calls escape_all_bindings under the direct_eval test; visit_identifier passes direct_eval || with
  R3  the const-binding cache is consulted only when not compiling inside `with`
  R4  an operand register handed out by compile_expr_operand (it may be the variable's own register) is never
      used after / captured across the compilation of another expression
"""
from facts import (cn, callee, cname, roots, op_local, taint, arg_hits, place_fields, bool_switch, bool_origin)

CRATES = ["boa_engine", "boa_ast"]
EXPLANATION = (
    "Sibling-agreement, dominance and interprocedural value-flow rules over boa_ast::scope_analyzer (three "
    "VisitorMut impls) and boa_engine::bytecompiler (const cache reads, compile_expr_operand callbacks with the "
    "bytecompiler call graph). Rule instances are visitor methods, cache read sites and operand uses. They hold for "
    "all programs because binding placement is decided only by these visitors and operand aliasing only by these "
    "callbacks. Not decided: TDZ along non-textual orders, soundness of the escape analysis for all capture shapes.")

VISITORS = {
    "collector": "boa_ast::scope_analyzer::BindingCollectorVisitor",
    "escape": "boa_ast::scope_analyzer::BindingEscapeAnalyzer",
    "index": "boa_ast::scope_analyzer::ScopeIndexVisitor",
}
# audited differences between the visitors (method -> reason)
ONLY_IN = {
    "collector": {
        "visit_this_mut": "records `this` usage for arrow functions; no scope of its own",
        "visit_script_mut": "script scope is created by the collector; escape/index passes start below it",
    },
    "escape": {
        "visit_identifier_mut": "marks the accessed binding; identifiers carry no scope",
        "visit_export_declaration_mut": "exported bindings always escape (module environment is observable)",
    },
    "index": {},
}
NOT_IN = {
    "index": {"visit_module_mut": "module scope indices are assigned when the module environment is created",
              "visit_script_mut": "see collector"},
    "escape": {},
    "collector": {},
}


def impl_methods(db, self_suffix):
    out = {}
    for i in db.impls:
        if i["trait"] == "boa_ast::visitor::VisitorMut" and i["self"].split("<")[0] == self_suffix:
            for it in i["items"]:
                n = it.split("::")[-1]
                if n.startswith("visit_"):
                    out[n] = it
    return out


def r1(db, rep):
    rep.rule("R1", "BindingCollectorVisitor, BindingEscapeAnalyzer and ScopeIndexVisitor override the same scope-bearing "
                   "visit_*_mut methods (audited differences listed with reasons)")
    ms = {k: impl_methods(db, v) for k, v in VISITORS.items()}
    for k, v in VISITORS.items():
        if not rep.anchor("R1", f"impl VisitorMut for {v}", ms[k]):
            return
    rep.floor("R1", "collector visit methods", len(ms["collector"]), 20)
    scope_bearing = set(ms["collector"]) - set(ONLY_IN["collector"])
    for m in sorted(scope_bearing):
        for other in ("escape", "index"):
            if m in NOT_IN[other]:
                continue
            rep.ob("R1", f"{other}:{m}", m in ms[other],
                   f"{VISITORS[other].split('::')[-1]} does not override {m} although the collector creates a scope for that "
                   f"node — bindings of that scope keep default escape flags / indices", loc="core/ast/src/scope_analyzer.rs")
    for other in ("escape", "index"):
        for m in sorted(set(ms[other]) - scope_bearing - set(ONLY_IN[other])):
            rep.ob("R1", f"{other}:extra:{m}", m in ms["collector"] or m in ONLY_IN[other],
                   f"{VISITORS[other].split('::')[-1]} overrides {m} which the collector does not (unaudited difference)",
                   loc="core/ast/src/scope_analyzer.rs")


def r2(db, rep):
    rep.rule("R2", "every BindingEscapeAnalyzer method that raises self.direct_eval on entering a node calls "
                   "escape_all_bindings at least once per raise; visit_identifier passes `direct_eval || with`")
    n = 0
    for f in db.fns.values():
        if f.krate != "boa_ast" or "BindingEscapeAnalyzer" not in f.id:
            continue
        if not f.mentions("direct_eval"):
            continue
        name = cname(f.id)
        raises = 0
        for b in f.reachable():
            for s in f.blocks[b]["s"]:
                fl = place_fields(s["p"])
                if fl and fl[-1].endswith("BindingEscapeAnalyzer.direct_eval") and s["r"].get("k") == "use":
                    o = s["r"]["o"]
                    l = op_local(o)
                    rs = roots(f, l) if l is not None else ([("const", o[1])] if o[0] == "k" else [])
                    if any(r[0] == "const" and r[1].get("v") == "1" for r in rs):
                        raises += 1
        if not raises and f.name != "visit_with_mut":
            continue
        if f.name == "visit_with_mut":
            raises = 1   # `with` never raises the flag but must escape its object scope when eval is in reach
        n += 1
        esc = [b for b, t in f.calls() if cn(t).endswith("::escape_all_bindings")]
        gated = 0
        for eb in esc:
            for sb in f.dominators().get(eb, ()):
                bs = bool_switch(f, sb)
                if not bs:
                    continue
                l, fb, tb = bs
                rs = roots(f, l)
                if any(r[0] == "place" and any(x.endswith("BindingEscapeAnalyzer.direct_eval") for x in place_fields(r[1]))
                       for r in rs):
                    if eb in f.reach_from([tb], avoid={sb}):
                        gated += 1
                        break
        rep.ob("R2", f"{name}:escape-on-eval", gated >= raises,
               f"{name}: raises self.direct_eval {raises} time(s) but forces escape_all_bindings under it only {gated} time(s) — "
               f"a scope that a direct eval can reach keeps register-resident bindings", loc=f.span)
    rep.floor("R2", "analyzer methods entering eval-capable nodes", n, 8)  # 7 raising methods + visit_with_mut
    fs = [f for f in db.fns.values() if f.krate == "boa_ast" and "BindingEscapeAnalyzer" in f.id and f.name == "visit_identifier_mut"]
    if rep.anchor("R2", "BindingEscapeAnalyzer::visit_identifier_mut", fs):
        f = fs[0]
        ok = False
        for b, t in f.calls():
            if cn(t).endswith("::access_binding") and len(t["args"]) >= 3:
                l = op_local(t["args"][2])
                fields = set()
                for r in (roots(f, l) if l is not None else []):
                    if r[0] == "place":
                        fields |= {x.split(".")[-1] for x in place_fields(r[1])}
                    if r[0] == "const" and r[1].get("v") == "1":
                        fields.add("true")
                # `a || b` lowers to: if a {true} else {b}
                reads = set()
                for bb in f.reachable():
                    for s in f.blocks[bb]["s"]:
                        r = s["r"]
                        if r.get("k") == "use" and r["o"][0] in ("c", "m"):
                            reads |= {x.split(".")[-1] for x in place_fields(r["o"][1])}
                ok = {"direct_eval", "with"} <= (fields | reads)
        rep.ob("R2", "BindingEscapeAnalyzer::visit_identifier_mut:eval-or-with", ok,
               "visit_identifier_mut no longer passes `direct_eval || with` to access_binding — identifiers used under eval/with "
               "would not force their binding into an environment", loc=f.span)


def r3(db, rep):
    rep.rule("R3", "every read of ByteCompiler.const_binding_cache (get / contains_key) and every use of a binding's constness "
                   "as a compile-time shortcut (Scope::is_binding_mutable) is control-dependent on `self.in_with == false`")
    n = 0
    for f in db.fns.values():
        if not f.id.startswith("boa_engine::bytecompiler") or not (f.mentions("const_binding_cache") or
                                                                   f.mentions("is_binding_mutable")):
            continue
        name = cname(f.id)
        k = -1
        for b, t in f.calls():
            c = cn(t)
            what = "const-cache-read"
            if c == "Scope::is_binding_mutable":
                what = "constness-shortcut"       # "this identifier is a const" justifies hoisting it out of a loop
            else:
                if c.split("::")[-1] not in ("get", "contains_key", "get_key_value") or not t["args"]:
                    continue
                l = op_local(t["args"][0])
                d = f.single_def(l) if l is not None else None
                if not d or d[1] == "t" or d[2].get("k") != "ref" or not any(
                        x.endswith("ByteCompiler.const_binding_cache") for x in place_fields(d[2]["p"])):
                    continue
            k += 1
            n += 1
            ok = False
            for sb in f.dominators().get(b, ()):
                bs = bool_switch(f, sb)
                if not bs:
                    continue
                l2, fb, tb = bs
                pol, root = bool_origin(f, l2)
                rs = [root] if root[0] != "local" else []
                rs += roots(f, l2)
                hit = any(r[0] == "place" and any(x.endswith("ByteCompiler.in_with") for x in place_fields(r[1])) for r in rs)
                if not hit and root[0] == "rv":
                    o = root[2].get("o")
                    if o and o[0] in ("c", "m") and any(x.endswith("ByteCompiler.in_with") for x in place_fields(o[1])):
                        hit = True
                if not hit:
                    continue
                notwith = fb if pol else tb
                inwith = tb if pol else fb
                if b in f.reach_from([notwith], avoid={sb}) and b not in f.reach_from([inwith], avoid={sb}):
                    ok = True
            rep.ob("R3", f"{name}:{what}:{k}", ok,
                   f"{name}: {'reads const_binding_cache' if what == 'const-cache-read' else 'uses the constness of a binding as a compile-time shortcut'} "
                   f"at {f.loc(b)} without `!self.in_with` — inside `with (o)` the identifier may "
                   f"name a property of o, not the constant (`const N=10; with(o){{ while(i<N){{ i++; o.N=3 }} }}` must stop at 3)",
                   loc=f.loc(b))
    rep.floor("R3", "const_binding_cache read sites", n, 3)


def compile_reaching(db):
    """bytecompiler functions from which ByteCompiler::compile_expr_impl is reachable (callers closure; a function is
    also considered to reach whatever the closures it creates reach)"""
    edges = {}
    for f in db.fns.values():
        if not f.id.startswith("boa_engine::bytecompiler"):
            continue
        outs = set()
        for b, t in f.calls(reachable_only=False):
            c = callee(t)
            if c:
                outs.add(c)
        for b in range(len(f.blocks)):
            for s in f.blocks[b]["s"]:
                r = s["r"]
                if r.get("k") == "agg" and r.get("ak") == "closure":
                    outs.add(r["def"])
        edges[f.id] = outs
    target = [f.id for f in db.fns.values() if cname(f.id) == "ByteCompiler::compile_expr_impl"]
    reach = set(target)
    changed = True
    while changed:
        changed = False
        for f, outs in edges.items():
            if f not in reach and outs & reach:
                reach.add(f)
                changed = True
    return reach


EXPR_REF = "&boa_ast::expression::Expression"


def _is_expr(g, o):
    l = op_local(o)
    return l is not None and g.locals[l].replace("'_ ", "").replace(" ", "").startswith(EXPR_REF.replace(" ", ""))


def guarded_wrappers(db, rep, reach):
    """functions that forward their own callback parameter to compile_expr_operand under a `!may_assign(rhs)` guard.
    Returns {wrapper id: (callback arg index, guarded expression arg index)} for the wrappers whose guard checks out."""
    out = {}
    for f in db.fns.values():
        if not f.id.startswith("boa_engine::bytecompiler") or not f.mentions("compile_expr_operand") or "{closure" in f.id:
            continue
        for b, t in f.calls():
            if cn(t) != "ByteCompiler::compile_expr_operand" or len(t["args"]) < 3:
                continue
            l = op_local(t["args"][2])
            rs = roots(f, l) if l is not None else []
            if not rs or not all(r[0] == "arg" for r in rs):
                continue
            cb_arg = rs[0][1]
            name = cname(f.id)
            # (W1) the forwarding call is on the false edge of guard(expr) where expr is another parameter
            guard_ok = None
            for sb in f.dominators().get(b, ()):
                bs = bool_switch(f, sb)
                if not bs:
                    continue
                pol, org = bool_origin(f, bs[0])
                if org[0] != "call" or not org[2]["args"]:
                    continue
                ea = org[2]["args"][0]
                ers = roots(f, op_local(ea)) if op_local(ea) is not None else []
                if not ers or not all(r[0] == "arg" for r in ers) or not _is_expr(f, ea):
                    continue
                no_assign, assign = (bs[1], bs[2]) if pol else (bs[2], bs[1])
                if b in f.reach_from([no_assign], avoid={sb}) and b not in f.reach_from([assign], avoid={sb}):
                    guard_ok = (callee(org[2]), ers[0][1])
            rep.ob("R4", f"{name}:forwarding-guarded", guard_ok is not None,
                   f"{name} forwards its callback to compile_expr_operand (which may hand out a local's own register) without "
                   f"a dominating `!may_assign(rhs)` test on one of its expression parameters ({f.loc(b)})", loc=f.loc(b))
            if guard_ok is None:
                continue
            # (W1b) the guard really looks for assignments: its visitor overrides visit_assign and visit_update
            gf = db.fns.get(guard_ok[0])
            vis_ok = False
            if gf is not None:
                for imp in db.impls:
                    if (imp.get("trait") or "").endswith("visitor::Visitor") and imp["self"].startswith(gf.id.split("::{")[0]):
                        names = {x.split("::")[-1]: x for x in imp["items"]}
                        if {"visit_assign", "visit_update"} <= set(names):
                            # each override breaks unconditionally: every value it can return is ControlFlow::Break (an
                            # override returning Continue does not descend, so a nested `x = ..` / `x++` would be missed)
                            always = True
                            for m in ("visit_assign", "visit_update"):
                                h = db.fns.get(names[m])
                                if h is None:
                                    always = False
                                    continue
                                for bb in h.reachable():
                                    for st in h.blocks[bb]["s"]:
                                        if st["p"] == [0] and not (st["r"].get("k") == "agg" and st["r"].get("variant") == "Break"):
                                            always = False
                                    tt = h.blocks[bb]["t"]
                                    if tt["t"] == "call" and tt.get("dest") == [0]:
                                        always = False
                            vis_ok = always
            rep.ob("R4", f"{name}:guard-finds-assignments", vis_ok,
                   f"the guard {guard_ok[0]} used by {name} does not answer `true` for every Assign and every Update expression "
                   f"(both visitor methods must be overridden and return Break unconditionally; an override that returns Continue "
                   f"does not descend): an operand that aliases a local could stay live across a nested `x = ..` / `x++`",
                   loc=f.span)
            # (W2) every direct call of the callback gets a fresh temporary
            fresh_ok = True
            for bb, tt in f.calls():
                if not cn(tt).endswith("call_once") or len(tt["args"]) < 2:
                    continue
                al = op_local(tt["args"][0])
                if al is None or not all(r[0] == "arg" and r[1] == cb_arg for r in roots(f, al)):
                    continue
                tl = op_local(tt["args"][1])
                ok2 = False
                for r in (roots(f, tl) if tl is not None else []):
                    if r[0] == "rv" and r[2].get("k") == "agg":
                        for o in r[2]["ops"]:
                            ol = op_local(o)
                            for rr in (roots(f, ol) if ol is not None else []):
                                if rr[0] == "call" and cn(rr[2]) == "Register::variable":
                                    rl = op_local(rr[2]["args"][0])
                                    if rl is not None and any(x[0] == "call" and cn(x[2]) == "RegisterAllocator::alloc"
                                                              for x in roots(f, rl)):
                                        ok2 = True
                fresh_ok = fresh_ok and ok2
            rep.ob("R4", f"{name}:copy-path-uses-fresh-register", fresh_ok,
                   f"{name}: on the path where rhs may assign, the callback is not given a freshly allocated temporary", loc=f.span)
            if vis_ok and fresh_ok:
                out[f.id] = (cb_arg, guard_ok[1])
    return out


def r4(db, rep):
    rep.rule("R4", "the RegisterOperand passed to a compile_expr_operand callback flows only into bytecode emitters, and never "
                   "into / across a call that can compile another expression (the operand may be the variable's own register: "
                   "`y + (y = 5)`) — unless the only expression compiled meanwhile is one a guarded wrapper has tested to "
                   "contain no assignment / update")
    reach = compile_reaching(db)
    rep.floor("R4", "bytecompiler functions that can compile an expression", len(reach), 50)
    wrappers = guarded_wrappers(db, rep, reach)
    roots_ = []
    for f in db.fns.values():
        if not f.id.startswith("boa_engine::bytecompiler") or not (f.mentions("compile_expr_operand") or
                                                                   any(f.mentions(w.split("::")[-1]) for w in wrappers)):
            continue
        for b, t in f.calls():
            c = callee(t)
            if cn(t) == "ByteCompiler::compile_expr_operand" and len(t["args"]) >= 3:
                cbi, gsrc = 2, None
            elif c in wrappers:
                cbi = wrappers[c][0] - 1
                ga = t["args"][wrappers[c][1] - 1]
                gl = op_local(ga)
                gsrc = {cn(r[2]) for r in (roots(f, gl) if gl is not None else []) if r[0] == "call"} or None
                if gsrc is None:
                    rep.ob("R4", f"{cname(f.id)}:guarded-expression-source", False,
                           f"{cname(f.id)} passes an expression to {cn(t)} whose source the rule cannot name ({f.loc(b)})",
                           loc=f.loc(b))
                    continue
            else:
                continue
            l = op_local(t["args"][cbi])
            for r in (roots(f, l) if l is not None else []):
                if r[0] == "rv" and r[2].get("k") == "agg" and r[2].get("ak") == "closure":
                    roots_.append((f, b, r[2]["def"], gsrc))
    rep.floor("R4", "compile_expr_operand callbacks", len(roots_), 12)
    seen = set()
    ordn = {}

    def guarded_locals(g, gsrc, gparams):
        """locals of g holding the guarded expression: results of the accessor(s) in gsrc, or guarded parameters"""
        out = set()
        for l, ty in enumerate(g.locals):
            if not ty.replace(" ", "").replace("'_", "").startswith(EXPR_REF.replace(" ", "")):
                continue
            rs = roots(g, l)
            if rs and all((r[0] == "call" and gsrc and cn(r[2]) in gsrc) or (r[0] == "arg" and r[1] in gparams) for r in rs):
                out.add(l)
        return out

    def check(g, locals_, origin, depth, via, gsrc=None, gparams=frozenset()):
        """g: function body; locals_: tainted locals (the operand); reports violations"""
        key = (g.id, tuple(sorted(locals_)), tuple(sorted(gsrc or ())), tuple(sorted(gparams)))
        if key in seen or depth > 4:
            return
        seen.add(key)
        T = set(locals_)
        for l in list(locals_):
            T |= taint(g, l)[0]
        G = guarded_locals(g, gsrc, gparams) if (gsrc or gparams) else set()

        def only_guarded(t):
            ex = [a for a in t["args"] if _is_expr(g, a)]
            return bool(ex) and all(op_local(a) in G for a in ex)
        comp_calls = [(b, t) for b, t in g.calls() if (callee(t) in reach) and not only_guarded(t)]
        for b, t in g.calls():
            hits = arg_hits(t, T)
            if not hits:
                continue
            c = callee(t)
            nm = cname(origin.id)
            if c in reach:
                h = db.fns.get(c)
                exempt = only_guarded(t)
                # a closure object holding the operand, handed to a compiling function: it runs after more code was emitted
                captured = False
                for i in hits:
                    al = t["args"][i][1][0]
                    for r in roots(g, al):
                        if r[0] == "rv" and r[2].get("k") == "agg" and r[2].get("ak") == "closure":
                            captured = True
                if (captured or h is None) and not exempt:
                    ordn[nm] = ordn.get(nm, -1) + 1
                    rep.ob("R4", f"{nm}:operand-captured:{ordn[nm]}", False,
                           f"{cname(g.id)}: the operand register obtained in {nm} is captured by a callback passed to {cn(t)} at "
                           f"{g.loc(b)}, which compiles another expression first — if that expression assigns the variable the "
                           f"operand aliases, the old value is lost (`let y=1; y + (y = 5)` gives 10)", loc=g.loc(b))
                elif captured or h is None:
                    rep.ob("R4", f"{nm}:operand-captured-across-guarded-expression:{cname(g.id)}:{b}", True, loc=g.loc(b))
                else:
                    gp = frozenset(k + 1 for k, a in enumerate(t["args"]) if op_local(a) in G)
                    for i in hits:
                        check(h, {i + 1}, origin, depth + 1, via + [cn(t)], gsrc, gp)
            else:
                # an emitter (or other non-compiling call): it must not come after a compiling call in this body
                for cb, ct in comp_calls:
                    if cb != b and b in g.reach_from(g.succs(cb)):
                        ordn[nm] = ordn.get(nm, -1) + 1
                        rep.ob("R4", f"{nm}:operand-used-late:{ordn[nm]}", False,
                               f"{cname(g.id)}: the operand register obtained in {nm} is used by {cn(t)} at {g.loc(b)} after "
                               f"{cn(ct)} ({g.loc(cb)}) compiled another expression", loc=g.loc(b))
                        break
                else:
                    rep.ob("R4", f"{nm}:operand-use:{cname(g.id)}:{cn(t)}:{b}", True, loc=g.loc(b))
        # closures created in g that capture the operand: follow into their bodies (upvar fields)
        for b in g.reachable():
            for s in g.blocks[b]["s"]:
                r = s["r"]
                if r.get("k") == "agg" and r.get("ak") == "closure":
                    idx = [i for i, o in enumerate(r["ops"]) if o[0] in ("c", "m") and o[1][0] in T]
                    if not idx:
                        continue
                    h = db.fns.get(r["def"])
                    if h is None:
                        continue
                    # locals of h that read the captured upvar i
                    ups = set()
                    for bb in h.reachable():
                        for ss in h.blocks[bb]["s"]:
                            rr = ss["r"]
                            pl = rr.get("p") if rr.get("k") in ("ref",) else (rr["o"][1] if rr.get("k") == "use" and rr["o"][0] in ("c", "m") else None)
                            if pl and pl[0] == 1 and any(e == f"f:upvar.{i}" for e in pl[1:] for i in idx):
                                ups.add(ss["p"][0])
                    if ups:
                        check(h, ups, origin, depth + 1, via + ["closure"], gsrc, frozenset())

    for f, b, cdef, gsrc in roots_:
        h = db.fns.get(cdef)
        if h is None:
            rep.violation("R4", f"{cname(f.id)}:callback-body-missing", f"callback {cdef} has no body")
            continue
        check(h, {3}, h, 0, [], gsrc)


def r5(db, rep):
    rep.rule("R5", "FunctionScopes::escape_all_bindings / reorder_binding_indices act on every scope field of FunctionScopes "
                   "(function, parameters-eval, parameters, lexical, ...): a scope left out keeps register-resident bindings "
                   "although a direct eval can reach them")
    import c10
    adt = db.adts.get("boa_ast::scope::FunctionScopes")
    if not rep.anchor("R5", "struct boa_ast::scope::FunctionScopes", adt):
        return
    scope_fields = [fl["n"] for fl in adt["variants"][0]["fields"]
                    if fl["ty"].endswith("scope::Scope") or fl["ty"].endswith("Option<boa_ast::scope::Scope>")]
    rep.floor("R5", "scope fields of FunctionScopes", len(scope_fields), 3)
    for m in ("escape_all_bindings", "reorder_binding_indices"):
        fs = [f for f in db.fns.values() if f.krate == "boa_ast" and f.name == m and
              (f.rec.get("self") or "").endswith("scope::FunctionScopes")]
        if not rep.anchor("R5", f"FunctionScopes::{m}", fs):
            continue
        f = fs[0]
        touched, whole = c10.touched_fields(f)
        names = {n for _, n in touched}
        for fld in scope_fields:
            rep.ob("R5", f"FunctionScopes::{m}:{fld}", fld in names,
                   f"FunctionScopes::{m} does not touch the `{fld}` scope — its bindings keep their old placement "
                   f"(e.g. stay in registers under a direct eval)", loc=f.span)


def _reads(f, adt_short, field, blocks=None):
    """blocks of f that read `<adt_short>.<field>` (place projection) or call its getter `<adt_short>::<field>`"""
    out = set()
    want = adt_short + "." + field
    for b in (blocks if blocks is not None else f.reachable()):
        for s in f.blocks[b]["s"]:
            r = s["r"]
            k = r.get("k")
            places = []
            if k in ("use", "cast", "un", "repeat") and r["o"][0] in ("c", "m"):
                places.append(r["o"][1])
            elif k in ("ref", "discr", "rawptr", "len") and "p" in r:
                places.append(r["p"])
            elif k == "agg":
                places += [o[1] for o in r["ops"] if o[0] in ("c", "m")]
            elif k == "bin":
                places += [o[1] for o in (r["a"], r["b"]) if o[0] in ("c", "m")]
            for pl in places:
                if any(x.endswith(want) for x in place_fields(pl)):
                    out.add(b)
        t = f.blocks[b]["t"]
        if t["t"] == "call" and cn(t) == adt_short + "::" + field:
            out.add(b)
        if t["t"] == "switch" and t["o"][0] in ("c", "m") and any(x.endswith(want) for x in place_fields(t["o"][1])):
            out.add(b)
    return out


def r6(db, rep):
    rep.rule("R6", "contains(node, DirectEval) — which decides whether the bindings of the enclosing scopes must leave their "
                   "registers — sees every place a direct eval can hide: each function-like node with a contains_direct_eval "
                   "flag is traversed by default, or its ContainsVisitor override consults the flag or descends; every "
                   "ClassElement variant with an initializer / body is descended into")
    imp = [i for i in db.impls if "ContainsVisitor" in i["self"] and (i.get("trait") or "").endswith("visitor::Visitor")]
    if not rep.anchor("R6", "impl Visitor for contains::ContainsVisitor", imp):
        return
    methods = [db.fns[x] for x in imp[0]["items"] if x in db.fns]
    rep.floor("R6", "ContainsVisitor overrides", len(methods), 20)
    carriers = {}
    for k, a in db.adts.items():
        if not k.startswith("boa_ast::"):
            continue
        fs = [fl["n"] for v in a["variants"] for fl in v["fields"]]
        if "contains_direct_eval" in fs and "parameters" in fs:
            carriers[k] = k.split("::")[-1]
    rep.floor("R6", "function-like AST nodes carrying contains_direct_eval", len(carriers), 12)

    def arg_ty(f):
        return f.locals[2].replace("&'ast ", "").replace("&", "").strip() if f.rec["argc"] >= 2 else ""

    enums = {k: a for k, a in db.adts.items() if a["kind"] == "enum" and k.startswith("boa_ast::")}
    for T, short_T in sorted(carriers.items()):
        handlers = []
        for f in methods:
            at = arg_ty(f)
            if at == T:
                handlers.append((f, None))
            elif at in enums:
                for vi, v in enumerate(enums[at]["variants"]):
                    if any(fl["ty"] == T for fl in v["fields"]):
                        handlers.append((f, (at, vi, v["name"])))
        if not handlers:
            rep.ob("R6", f"{short_T}:default-traversal", True, "", loc=db.adts[T]["span"])
            continue
        for f, via in handlers:
            consult = _reads(f, short_T, "contains_direct_eval")
            descends = [b for b, t in f.calls() if (callee(t) or "").startswith("<" + T + " as boa_ast::visitor::VisitWith")]
            rep.ob("R6", f"{short_T}:{f.name}:eval-flag-consulted", bool(consult or descends),
                   f"ContainsVisitor::{f.name} handles {short_T} without reading its contains_direct_eval flag and without "
                   f"descending into it: a direct eval inside such a function is invisible to the enclosing function, whose "
                   f"locals stay in registers (the eval then reads a missing environment: panic / wrong binding)", loc=f.span)
    # class elements that are not functions of their own flag: initializers and static blocks
    ce = "boa_ast::function::class::ClassElement"
    fs = [f for f in methods if arg_ty(f) == ce]
    if not rep.anchor("R6", "ContainsVisitor::visit_class_element", fs) or not rep.anchor("R6", "enum ClassElement", enums.get(ce)):
        return
    f = fs[0]
    sw = None
    for sb in f._rpo():
        tt = f.blocks[sb]["t"]
        if tt["t"] != "switch":
            continue
        ll = op_local(tt["o"])
        d = f.single_def(ll) if ll is not None else None
        if d and d[1] != "t" and d[2].get("k") == "discr" and d[2]["p"][0] == 2:
            sw = (sb, tt)
            break
    if not rep.anchor("R6", "match on the ClassElement variant in visit_class_element", sw):
        return
    sb, tt = sw
    nv = 0
    for vi, v in enumerate(enums[ce]["variants"]):
        if not v["fields"]:
            continue
        P = v["fields"][0]["ty"]
        padt = db.adts.get(P)
        if not padt:
            continue
        pf = [fl["n"] for fl in padt["variants"][0]["fields"]]
        want = "contains_direct_eval" if "contains_direct_eval" in pf else "initializer" if "initializer" in pf \
            else "body" if "body" in pf else None
        if want is None:
            continue
        nv += 1
        tgt = tt["tgts"][tt["vals"].index(str(vi))] if str(vi) in tt["vals"] else tt["tgts"][-1]
        arm = f.reach_from([tgt], avoid={sb})
        ok = bool(_reads(f, P.split("::")[-1], want, blocks=arm))
        rep.ob("R6", f"ClassElement::{v['name']}:{want}-visited", ok,
               f"ContainsVisitor::visit_class_element never looks at the {want} of ClassElement::{v['name']}: a direct eval "
               f"there (`class C {{ static x = eval(\"local\") }}`) is invisible to the enclosing function", loc=f.span)
    rep.floor("R6", "ClassElement variants that can hold a direct eval", nv, 6)


SCOPE_VISITORS = {"collector": "BindingCollectorVisitor", "escape": "BindingEscapeAnalyzer", "index": "ScopeIndexVisitor"}
# statements with exactly one, unconditional scope of their own (the for-loops have several optional scopes and are not compared)
SINGLE_SCOPE_NODES = ["visit_block_mut", "visit_catch_mut", "visit_switch_mut", "visit_with_mut"]


def _pre_scope_children(f, kind):
    """(fields of the node visited before the node's scope is entered, whether a scope-entry event exists)"""
    entries = []
    visits = []
    for b, t in f.calls():
        c = cn(t)
        if kind in ("collector", "escape") and c.endswith("mem::swap"):
            entries.append(b)
        if kind == "index" and c.endswith("Scope::set_index"):
            entries.append(b)
        m = (callee(t) or "").split("::")[-1]
        if m.startswith("visit_") and len(t["args"]) >= 2:
            l = op_local(t["args"][1])
            fl = set()
            for r in (roots(f, l) if l is not None else []):
                if r[0] == "place":
                    fl |= {x.split(".")[-1] for x in place_fields(r[1]) if not x.split(".")[-1].isdigit()}
            if fl:
                visits.append((b, fl))
    pre = set()
    after_entry = set()
    for e in entries:
        after_entry |= f.reach_from(f.succs(e))
    for b, fl in visits:
        if b not in after_entry:          # the scope cannot have been entered yet on any path
            pre |= fl
    return pre, bool(entries)


def r6b(db, rep):
    from facts import provenance
    rep.rule("R6b", "the contains_direct_eval flag computed by an AST node's constructor examines each part on its own: an "
                    "expression-bearing parameter of `X::new` that reaches a contains(.., DirectEval) call is the sole subject "
                    "of one (a parameter merged with another through Option::or / and / zip is examined only when the other is "
                    "absent)")
    adts, ex, mentions = _expression_bearing(db)
    n = 0
    for k, a in adts.items():
        fields = [fl["n"] for v in a["variants"] for fl in v["fields"]]
        if "contains_direct_eval" not in fields or a["kind"] != "struct":
            continue
        short = k.split("::")[-1]
        fs = [f for f in db.fns.values() if f.krate == "boa_ast" and f.name == "new" and (f.rec.get("self") or "").endswith(k)
              and "{closure" not in f.id]
        if not fs:
            continue
        f = fs[0]
        params = [i for i in range(1, f.rec["argc"] + 1) if mentions(f.locals[i], ex)]
        if not params:
            continue
        sole = set()
        merged = set()
        subjects = []
        for b, t in f.calls():
            if (callee(t) or "").endswith("operations::contains") and t["args"]:
                subjects.append(op_local(t["args"][0]))
                continue
            # `opt.is_some_and(|e| contains(e, DirectEval))` and the like: the subject is the receiver
            for a_ in t["args"][1:]:
                al = op_local(a_)
                for r in (roots(f, al) if al is not None else []):
                    if r[0] == "rv" and r[2].get("k") == "agg" and r[2].get("ak") == "closure":
                        g = db.fns.get(r[2]["def"])
                        if g is not None and any((callee(tt) or "").endswith("operations::contains") for _, tt in g.calls()):
                            subjects.append(op_local(t["args"][0]))
        for l in subjects:
            if l is None:
                continue
            prov = provenance(f, l, limit=200, extra=("as_ref", "as_deref", "deref", "unwrap", "expect", "iter", "as_slice",
                                                       "or", "and", "xor", "zip", "or_else", "chain", "unwrap_or", "clone"))
            # provenance follows only the first argument of calls: look at every argument of the combinators it met
            srcs = {p_ for p_ in params if p_ in prov}
            for q in list(prov):
                for bb, i, rr in f.defs().get(q, []):
                    if i == "t" and cn(rr).split("::")[-1] in ("or", "and", "xor", "zip", "or_else", "chain", "unwrap_or"):
                        for a_ in rr["args"]:
                            al = op_local(a_)
                            if al is not None:
                                srcs |= {p_ for p_ in params if p_ in provenance(f, al, limit=200, extra=("as_ref", "as_deref", "deref", "clone"))}
            if len(srcs) == 1:
                sole |= srcs
            elif len(srcs) > 1:
                merged |= srcs
        for p_ in params:
            if p_ not in merged and p_ not in sole:
                continue          # not examined at all: outside the scope the flag governs (switch discriminant, method name)
            n += 1
            rep.ob("R6b", f"{short}::new:{f.var_name(p_) or p_}:examined-for-direct-eval", p_ in sole,
                   f"{short}::new computes contains_direct_eval without a contains(.., DirectEval) call that examines its parameter "
                   f"`{f.var_name(p_) or p_}` by itself: a direct eval that occurs only there (`for (let i = 0; i < 3; eval(\"i++\"))`) "
                   f"leaves the flag false, the loop's bindings stay in registers and the eval writes another variable",
                   loc=f.span)
    rep.floor("R6b", "expression-bearing constructor parameters examined for direct eval", n, 20)


def r7(db, rep):
    rep.rule("R7", "the three scope passes agree on which children of a scope-bearing statement lie outside its scope: for "
                   "block / catch / switch / with, the node fields visited before the node's scope is "
                   "entered (collector and escape analyzer: the swap of self.scope; index visitor: Scope::set_index) are the same "
                   "in BindingCollectorVisitor, BindingEscapeAnalyzer and ScopeIndexVisitor — otherwise scope indices (the "
                   "static environment depth in every BindingLocator) disagree with the chain the compiler builds")
    meths = {}
    for f in db.fns.values():
        if f.krate != "boa_ast" or "{closure" in f.id:
            continue
        for k, v in SCOPE_VISITORS.items():
            if v in f.id and f.name in SINGLE_SCOPE_NODES:
                meths.setdefault(f.name, {})[k] = f
    n = 0
    for m in SINGLE_SCOPE_NODES:
        d = meths.get(m, {})
        if not rep.anchor("R7", f"{m} overridden by the three scope visitors", len(d) == 3):
            continue
        res = {k: _pre_scope_children(f, k) for k, f in d.items()}
        n += 1
        ref = res["collector"][0]
        for k in ("escape", "index"):
            rep.ob("R7", f"{m}:{k}-agrees-with-collector", res[k][0] == ref and res[k][1] == res["collector"][1],
                   f"{SCOPE_VISITORS[k]}::{m} treats {sorted(res[k][0]) or 'no child'} as lying outside the node's scope, "
                   f"BindingCollectorVisitor treats {sorted(ref) or 'no child'} so: functions and blocks inside the differing "
                   f"child get a scope index that is off by one (a locator then points past the environment chain: panic or "
                   f"wrong binding)", loc=d[k].span)
    rep.floor("R7", "single-scope statement nodes compared", n, 4)


def _expression_bearing(db):
    import re
    adts = {k: a for k, a in db.adts.items() if k.startswith("boa_ast::")}
    ex = {"boa_ast::expression::Expression"}

    def mentions(ty, S):
        return any(re.search(r"(?<![A-Za-z0-9_:])" + re.escape(x) + r"(?![A-Za-z0-9_])", ty) for x in S)
    changed = True
    while changed:
        changed = False
        for k, a in adts.items():
            if k not in ex and any(mentions(fl["ty"], ex) for v in a["variants"] for fl in v["fields"]):
                ex.add(k)
                changed = True
    return adts, ex, mentions


def _touched_fields(f):
    out, whole = set(), set()

    def addpl(pl):
        for x in place_fields(pl):
            out.add(x.split("::")[-1])
    for b in f.reachable():
        for st in f.blocks[b]["s"]:
            addpl(st["p"])
            r = st["r"]
            for key in ("o", "a", "b"):
                o = r.get(key)
                if isinstance(o, list) and o and o[0] in ("c", "m"):
                    addpl(o[1])
            if isinstance(r.get("p"), list):
                addpl(r["p"])
            for o in r.get("ops", []):
                if o[0] in ("c", "m"):
                    addpl(o[1])
        t = f.blocks[b]["t"]
        for a in t.get("args", []):
            if a[0] in ("c", "m"):
                addpl(a[1])
        if t["t"] == "switch" and t["o"][0] in ("c", "m"):
            addpl(t["o"][1])
        if t["t"] == "call":
            parts = cn(t).split("::")
            if len(parts) >= 2:
                out.add(parts[-2] + "." + parts[-1].replace("_mut", ""))     # accessor: T::field() / T::field_mut()
            for a in t["args"][1:]:
                l = op_local(a)
                if l is not None:
                    whole.add(f.locals[l].replace("&'ast mut ", "").replace("&mut ", "").replace("&", "").strip())
    return out, whole


LOOP_NODES = ["visit_for_loop_mut", "visit_for_in_loop_mut", "visit_for_of_loop_mut"]


def _visit_depths(f, kind):
    """{child field: max number of scopes of this node that are open when the child is visited}, from the events of the
    method in reverse-post-order: collector / escape analyzer toggle with mem::swap(self.scope, ..), the index visitor
    opens with Scope::set_index and closes by assigning a saved value (not an addition) back to self.index"""
    order = f._rpo()
    pos = {b: i for i, b in enumerate(order)}
    ev = []
    for b, t in f.calls():
        c = cn(t)
        if kind in ("collector", "escape") and c.endswith("mem::swap"):
            ev.append((pos.get(b, 0), 1, "T", None))
        if kind == "index" and c.endswith("Scope::set_index"):
            ev.append((pos.get(b, 0), 1, "E", None))
        m = (callee(t) or "").split("::")[-1]
        if m.startswith("visit_") and len(t["args"]) >= 2:
            l = op_local(t["args"][1])
            fl = set()
            for r in (roots(f, l) if l is not None else []):
                if r[0] == "place":
                    fl |= {x.split(".")[-1] for x in place_fields(r[1]) if not x.split(".")[-1].isdigit()}
            for x in fl:
                ev.append((pos.get(b, 0), 2, "V", x))
    if kind == "index":
        for b in f.reachable():
            for i, st in enumerate(f.blocks[b]["s"]):
                if any(x.endswith("ScopeIndexVisitor.index") for x in place_fields(st["p"])) and st["r"].get("k") == "use" \
                        and st["r"]["o"][0] in ("c", "m"):
                    vl = st["r"]["o"][1][0]
                    arith = any(r[0] == "rv" and r[2].get("k") in ("bin", "checked") for r in roots(f, vl))
                    if not arith and len(st["r"]["o"][1]) == 1:
                        ev.append((pos.get(b, 0), 0, "X", None))      # restore of a saved index (not `index += 1`)
    ev.sort(key=lambda e: (e[0], e[1]))
    depth, opened, out = 0, 0, {}
    for _, _, k, x in ev:
        if k == "T":
            opened += 1
            depth = depth + 1 if opened % 2 == 1 else max(depth - 1, 0)
        elif k == "E":
            depth += 1
        elif k == "X":
            depth = max(depth - 1, 0)
        elif k == "V":
            out[x] = max(out.get(x, 0), depth)
    return out


def r7b(db, rep):
    rep.rule("R7b", "for the loop statements (several sequential scopes: the TDZ scope of the head, then the loop scope) the index "
                    "visitor opens and closes its scopes around the same children as the collector: for every child, the "
                    "number of the node's scopes open at its visit is the same in BindingCollectorVisitor and "
                    "ScopeIndexVisitor (a head scope that is not closed numbers everything after it one too deep)")
    n = 0
    for m in LOOP_NODES:
        d = {}
        for f in db.fns.values():
            if f.krate != "boa_ast" or "{closure" in f.id or f.name != m:
                continue
            for k, v in SCOPE_VISITORS.items():
                if v in f.id:
                    d[k] = f
        if not rep.anchor("R7b", f"{m} overridden by collector and index visitor", "collector" in d and "index" in d):
            continue
        dc, di = _visit_depths(d["collector"], "collector"), _visit_depths(d["index"], "index")
        for child in sorted(set(dc) & set(di)):
            n += 1
            rep.ob("R7b", f"{m}:{child}:open-scopes-agree", dc[child] == di[child],
                   f"ScopeIndexVisitor::{m} visits `{child}` with {di[child]} of the statement's scopes open, "
                   f"BindingCollectorVisitor with {dc[child]}: the scope indices (static environment depths of the locators) of "
                   f"everything inside `{child}` are off — `for (let x of [(p = () => x, 1)]) {{ f = () => x }}` writes past the "
                   f"environment chain", loc=d["index"].span)
    rep.floor("R7b", "children of loop statements compared", n, 5)


def r8(db, rep):
    rep.rule("R8", "each scope pass reaches every child that can contain an expression: in every visit_X_mut override of "
                   "BindingCollectorVisitor / BindingEscapeAnalyzer / ScopeIndexVisitor, each field of X (or of an enum payload of "
                   "X) whose type can contain a boa_ast Expression is read, reached through its accessor, or handed on as a whole "
                   "— an unvisited child keeps wrong scopes, escapes and indices for the functions and identifiers inside it")
    adts, ex, mentions = _expression_bearing(db)
    rep.floor("R8", "boa_ast types that can contain an Expression", len(ex), 150)
    n = 0
    for f in db.fns.values():
        if f.krate != "boa_ast" or "{closure" in f.id or f.rec["argc"] < 2:
            continue
        kind = next((k for k, v in SCOPE_VISITORS.items() if v in f.id), None)
        if kind is None or not (f.name.startswith("visit_") and f.name.endswith("_mut")):
            continue
        T = f.locals[2].replace("&'ast mut ", "").replace("&mut ", "").strip()
        a = adts.get(T)
        if not a:
            continue
        tch, whole = _touched_fields(f)
        payloads = []
        if a["kind"] == "enum":
            for vv in a["variants"]:
                for fl in vv["fields"]:
                    if fl["ty"] in adts:
                        payloads.append((vv["name"], adts[fl["ty"]], fl["ty"]))
        else:
            payloads.append(("", a, T))
        for vn, pa, pt in payloads:
            if pa["kind"] != "struct" or (pt in whole and pt != T):
                continue
            for fl in pa["variants"][0]["fields"]:
                if not mentions(fl["ty"], ex):
                    continue
                n += 1
                key = pt.split("::")[-1] + "." + fl["n"]
                rep.ob("R8", f"{SCOPE_VISITORS[kind]}::{f.name}:{key}:visited", key in tch,
                       f"{SCOPE_VISITORS[kind]}::{f.name} never looks at {key} (type {fl['ty'].split('::')[-1]}), which can contain "
                       f"expressions: a closure or identifier in a class method's computed name gets no scope / escape / index "
                       f"(`function t(){{ let y='k'; class K {{ [(() => y)()](){{}} }} }}` throws ReferenceError; under `with` the "
                       f"key reads the register instead of the object)", loc=f.span)
    rep.floor("R8", "expression-bearing children of scope-pass overrides", n, 100)


def _sibling_key(name):
    n = name[len("visit_"):]
    n = n.replace("async_generator", "function").replace("async_function", "function").replace("generator", "function")
    n = n.replace("async_arrow_function", "arrow_function")
    n = n.replace("class_expression", "class").replace("class_declaration", "class")
    return n


def r9(db, rep):
    rep.rule("R9", "sibling overrides of contains()'s visitor treat the same symbols alike: the ContainsSymbol values a "
                   "ContainsVisitor method tests for (constant lists and discriminant tests) are equal for the sync / async / "
                   "generator variants of the same construct (arrow functions, function expressions, function declarations, "
                   "classes) — `contains(x, Super)` must see a `super` inside an async arrow exactly as inside a plain arrow")
    imp = [i for i in db.impls if "ContainsVisitor" in i["self"] and (i.get("trait") or "").endswith("visitor::Visitor")]
    if not rep.anchor("R9", "impl Visitor for contains::ContainsVisitor", imp):
        return
    sym = db.adts.get("boa_ast::operations::ContainsSymbol")
    if not rep.anchor("R9", "enum boa_ast::operations::ContainsSymbol", sym):
        return
    by_dv = {str(i): v["name"] for i, v in enumerate(sym["variants"])}
    groups = {}
    for item in imp[0]["items"]:
        f = db.fns.get(item)
        if f is None or not f.name.startswith("visit_"):
            continue
        syms = set()
        for g in [f] + [x for k, x in db.fns.items() if k.startswith(f.id + "::promoted[")]:
            for b in g.reachable():
                for st in g.blocks[b]["s"]:
                    r = st["r"]
                    if r.get("k") == "agg" and r.get("adt", "").endswith("operations::ContainsSymbol"):
                        syms.add(r.get("variant"))
                t = g.blocks[b]["t"]
                if t["t"] == "switch":
                    l = op_local(t["o"])
                    d = g.single_def(l) if l is not None else None
                    if d and d[1] != "t" and d[2].get("k") == "discr":
                        # discriminant of a ContainsSymbol place (self.0)
                        base_ty = g.locals[d[2]["p"][0]]
                        if "ContainsVisitor" in base_ty or "ContainsSymbol" in base_ty:
                            syms |= {by_dv.get(v, v) for v in t["vals"]}
        # helpers of the visitor (inherent methods of ContainsVisitor called from the override) decide too
        for _, t in f.calls():
            h = db.fns.get(callee(t) or "")
            if h is not None and "ContainsVisitor" in h.id and not h.name.startswith("visit_") and h.id != f.id:
                for b in h.reachable():
                    for st in h.blocks[b]["s"]:
                        r = st["r"]
                        if r.get("k") == "agg" and r.get("adt", "").endswith("operations::ContainsSymbol"):
                            syms.add(r.get("variant"))
                    t2 = h.blocks[b]["t"]
                    if t2["t"] == "switch":
                        l = op_local(t2["o"])
                        d = h.single_def(l) if l is not None else None
                        if d and d[1] != "t" and d[2].get("k") == "discr" and \
                                ("ContainsVisitor" in h.locals[d[2]["p"][0]] or "ContainsSymbol" in h.locals[d[2]["p"][0]]):
                            syms |= {by_dv.get(v, v) for v in t2["vals"]}
        groups.setdefault(_sibling_key(f.name), []).append((f, syms))
    n = 0
    for key, members in sorted(groups.items()):
        if len(members) < 2:
            continue
        n += 1
        ref_f, ref = members[0]
        for f, syms in members[1:]:
            rep.ob("R9", f"{key}:{f.name}-agrees-with-{ref_f.name}", syms == ref,
                   f"ContainsVisitor::{f.name} tests for {sorted(x for x in syms if x)} but its sibling {ref_f.name} tests for "
                   f"{sorted(x for x in ref if x)}: Contains gives different answers for the two forms of the same construct "
                   f"(a `super` inside an async arrow function is then invisible: no early SyntaxError, and the enclosing "
                   f"method gets no function environment — EnginePanic `must be in a function environment`)", loc=f.span)
    # ECMA-262 Contains for arrow functions: only the symbols an arrow inherits lexically are searched for inside it
    # (new.target, super property / call, super, this); boa adds its own DirectEval flag. `await` / `yield` belong to the
    # arrow's own body and must stay invisible to the enclosing function or module ([[HasTLA]]).
    arrow_ok = {"NewTarget", "SuperProperty", "SuperCall", "Super", "This", "DirectEval"}
    for f, syms in groups.get("arrow_function", []):
        extra = {x for x in syms if x} - arrow_ok
        rep.ob("R9", f"arrow_function:{f.name}:only-lexically-inherited-symbols", not extra,
               f"ContainsVisitor::{f.name} also looks into the arrow function for {sorted(extra)}: an `await` inside an async "
               f"arrow's body then counts as top-level await of the enclosing module ([[HasTLA]]), which reorders module "
               f"evaluation and turns synchronous failures into asynchronous ones", loc=f.span)
    # constructs that await without an Await node (`for await`): their `await` flag must be consulted
    methods = [db.fns[x] for x in imp[0]["items"] if x in db.fns]
    na = 0
    for k, a in db.adts.items():
        if not k.startswith("boa_ast::"):
            continue
        fl = [x["n"] for v in a["variants"] for x in v["fields"] if x["n"] in ("await", "r#await") and x["ty"] == "bool"]
        if not fl:
            continue
        na += 1
        short_T = k.split("::")[-1]
        hs = [f for f in methods if f.rec["argc"] >= 2 and f.locals[2].replace("&'ast ", "").replace("&", "").strip() == k]
        ok = any(_reads(f, short_T, "await") or _reads(f, short_T, "r#await") for f in hs)
        rep.ob("R9", f"{short_T}:await-flag-consulted", ok,
               f"ContainsVisitor has no override for {short_T} that reads its `await` flag: contains(x, AwaitExpression) misses "
               f"`for await (.. of ..)`, so a module whose only await is a top-level for-await is not [[HasTLA]] — it is run "
               f"synchronously and its importers fail (`ReferenceError: v is not defined`)", loc=a["span"])
    rep.floor("R9", "AST nodes with an await flag", na, 1)
    rep.floor("R9", "sibling groups in ContainsVisitor", n, 4)


def r10(db, rep):
    rep.rule("R10", "the walker that marks the owner of an arrow function's `this` can tell arrow functions from other "
                    "functions: Scope::escape_this_in_enclosing_function_scope reads an arrow flag of the scopes it walks or "
                    "takes the arrow nesting depth from the collector, whose counter is `old + 1` on entering an arrow; with "
                    "neither, `() => () => this` in a method marks the outer arrow instead of the method, which then gets no "
                    "function environment (this === undefined only when the bindings live in registers)")
    fs = [f for f in db.fns.values() if f.krate == "boa_ast" and cname(f.id) == "Scope::escape_this_in_enclosing_function_scope"]
    if not rep.anchor("R10", "Scope::escape_this_in_enclosing_function_scope", fs):
        return
    w = fs[0]
    tch, _ = _touched_fields(w)
    inner_fields = {x.split(".")[-1] for x in tch if x.startswith("Inner.")}
    extra_fields = inner_fields - {"function", "outer", "this_escaped"}
    takes_depth = w.rec["argc"] >= 2
    rep.ob("R10", "escape_this:walker-knows-arrows", bool(extra_fields) or takes_depth,
           "Scope::escape_this_in_enclosing_function_scope takes only `self` and reads only the `function`/`outer` fields of "
           "the scopes: it stops at the first enclosing function scope, which for nested arrows is another arrow", loc=w.span)
    if takes_depth and not extra_fields:
        # the depth comes from a collector field that is incremented per arrow
        ok = False
        for f in db.fns.values():
            if f.krate != "boa_ast" or "BindingCollectorVisitor" not in f.id or not f.mentions("escape_this_in_enclosing_function_scope"):
                continue
            for b, t in f.calls():
                if cn(t) != "Scope::escape_this_in_enclosing_function_scope" or len(t["args"]) < 2:
                    continue
                l = op_local(t["args"][1])
                flds = set()
                for r in (roots(f, l) if l is not None else []):
                    if r[0] == "place":
                        flds |= {x.split(".")[-1] for x in place_fields(r[1]) if "BindingCollectorVisitor." in x}
                for g in db.fns.values():
                    if g.krate != "boa_ast" or "BindingCollectorVisitor" not in g.id or g.name != "visit_function_like":
                        continue
                    for bb in g.reachable():
                        for st in g.blocks[bb]["s"]:
                            pf = {x.split(".")[-1] for x in place_fields(st["p"]) if "BindingCollectorVisitor." in x}
                            if pf & flds:
                                vl = op_local(st["r"]["o"]) if st["r"].get("k") == "use" else None
                                from facts import provenance
                                for q in (provenance(g, vl) if vl is not None else ()):
                                    for b3, i3, r3 in g.defs().get(q, []):
                                        if i3 != "t" and isinstance(r3, dict) and r3.get("k") in ("bin", "checked") and \
                                                str(r3.get("op", "")).startswith("Add"):
                                            ok = True
        rep.ob("R10", "escape_this:depth-counts-arrows", ok,
               "the arrow nesting depth handed to escape_this_in_enclosing_function_scope is not a collector field that "
               "visit_function_like increments per arrow function", loc=w.span)


def run(db, rep, tier):
    r1(db, rep)
    r2(db, rep)
    r3(db, rep)
    r4(db, rep)
    r5(db, rep)
    r6(db, rep)
    r6b(db, rep)
    r7(db, rep)
    r7b(db, rep)
    r8(db, rep)
    r9(db, rep)
    r10(db, rep)
    rep.assumptions += [
        "BytecodeEmitter::emit_* functions do not compile expressions (checked through the bytecompiler call graph)",
    ]
