"""C15 — typed arrays, buffers and DataViews match a byte model and stay in bounds.

Decided clauses:
  R1  element conversions cannot saturate before the modular step: every float→int `as` cast on the element-conversion
      paths (JsValue::to_{int8,uint8,uint8_clamp,int16,uint16,…}, TypedArrayKind::to_element*, typed_array / dataview /
      atomics / array_buffer) has an operand that is range-limited first (clamp / both-sided comparison guard / float
      remainder / f64_to_int32-style helper) or is a constant; Rust's `as` saturates, ECMAScript's conversions wrap
  R2  unsafe element access: every SliceRef::get_value / SliceRefMut::set_value call takes a receiver produced by a
      bounds-checked subslice()/subslice_mut() in the same function and is dominated by an index/length validation call
  R3  raw copies: memcpy / memmove / memmove_naive / copy_shared_to_shared* are called only from the audited functions,
      with pointers obtained from as_ptr()/as_mut_ptr() of a reference in the same function (never manufactured from integers)
Not decided: the byte model itself; that `count` fits the slices (arithmetic relation between lengths).
"""
import re
from facts import (cn, callee, cname, roots, op_local, taint, arg_hits, place_fields, bool_switch, bool_origin,
                   provenance)

CRATES = ["boa_engine"]
EXPLANATION = (
    "Value-shape and provenance rules over the MIR of boa_engine: every Cast(FloatToInt) statement on the element "
    "conversion paths is classified by the reaching definitions of its operand and the comparisons dominating it; "
    "every unsafe element read/write and raw copy call is checked for bounds-checked provenance of its slice / "
    "pointers and for a dominating validation call. Instances are cast statements and call sites. Holds for all values "
    "and histories because it constrains the conversion and access code itself. Not decided: the byte model, length "
    "arithmetic.")

SCOPE = ("boa_engine::builtins::typed_array", "boa_engine::builtins::dataview", "boa_engine::builtins::atomics",
         "boa_engine::builtins::array_buffer")
VALUE_FNS = re.compile(r"^JsValue::to_(u?int(8|16|32)|uint8_clamp|big_u?int64|i32|u32|f16|index|length)$")
MONOTONE = ("floor", "ceil", "round", "trunc", "abs", "copysign", "round_ties_even")
LIMITERS = ("clamp", "rem_euclid", "f64_to_int32", "f64_to_uint32")
AUDITED_CASTS = {
    "Atomics::pause": "only the sign of iterationNumber is used afterwards (RangeError when negative); saturation keeps the sign",
    "IntegerOrInfinity::from": "ToIntegerOrInfinity's finite result is represented as i64 by definition of this type; "
                               "consumers clamp it (clamp_finite) before use",
}
VALIDATORS = re.compile(r"(is_valid_integer_index|validate_index|validate_atomic_access|validate_integer_typed_array|"
                        r"::validate$|is_out_of_bounds|array_length|byte_length|get_view_byte_length|bytes_with_len|"
                        r"view_byte_length|is_typed_array_out_of_bounds)")
RAW_COPIES = ("utils::memcpy", "utils::memmove", "utils::memmove_naive", "utils::copy_shared_to_shared",
              "utils::copy_shared_to_shared_backwards")
RAW_COPY_CALLERS = {
    "DataView::get_view_value": "reads one element into a stack buffer after the view bounds check",
    "DataView::set_view_value": "writes one element from a stack buffer after the view bounds check",
    "BuiltinTypedArray::copy_within": "same-buffer move after count/offset clamping",
    "BuiltinTypedArray::set_typed_array_from_typed_array": "same-type bulk copy after length checks",
    "BuiltinTypedArray::slice": "same-type bulk copy after length clamping",
    "SharedArrayBuffer::grow": "copy into the grown block", "SharedArrayBuffer::slice": "slice copy",
    "utils::memmove": "wrapper", "utils::memcpy": "wrapper", "utils::memmove_naive": "wrapper",
    "utils::copy_shared_to_shared": "wrapper", "utils::copy_shared_to_shared_backwards": "wrapper",
    "SliceRef::to_vec": "copies len() bytes of the slice into a fresh Vec of that capacity",
    "ArrayBuffer::slice": "slice copy", "SliceRef::clone": "CloneArrayBuffer", "ArrayBuffer::resize": "resize copy",
}


def in_scope(f):
    if f.id.startswith(SCOPE):
        return True
    return f.id.startswith("boa_engine::value") and VALUE_FNS.match(cname(f.id) or "") is not None


def float_sources(f, local):
    """locals the float operand derives from through monotone float functions and copies"""
    seen = set()
    st = [local]
    while st:
        cur = st.pop()
        if cur in seen:
            continue
        seen.add(cur)
        for b, i, r in f.defs().get(cur, []):
            if isinstance(r, dict) and r.get("k") == "partial":
                continue
            if i == "t":
                m = cn(r).split("::")[-1]
                if m in MONOTONE and r["args"] and r["args"][0][0] in ("c", "m"):
                    st.append(r["args"][0][1][0])
                continue
            if r.get("k") == "use" and r["o"][0] in ("c", "m"):
                st.append(r["o"][1][0])
            elif r.get("k") == "bin" and r["op"] in ("Mul", "Add", "Sub", "Div") and (r["a"][0] == "k") != (r["b"][0] == "k"):
                o = r["a"] if r["b"][0] == "k" else r["b"]
                if o[0] in ("c", "m"):
                    st.append(o[1][0])      # affine in the other operand: bounds carry over
    return seen


def limited_by_definition(f, srcs):
    for l in srcs:
        for b, i, r in f.defs().get(l, []):
            if isinstance(r, dict) and r.get("k") == "partial":
                continue
            if i == "t":
                m = cn(r).split("::")[-1]
                if m in LIMITERS:
                    return f"range-limited by {m}()"
                if m in ("min", "max"):
                    # min(max(x, lo), hi)
                    inner = r["args"][0]
                    if inner[0] in ("c", "m"):
                        for bb, ii, rr in f.defs().get(inner[1][0], []):
                            if ii == "t" and cn(rr).split("::")[-1] in ("min", "max") and cn(rr).split("::")[-1] != m:
                                return "range-limited by min/max"
            elif r.get("k") == "bin" and r["op"] == "Rem":
                return "float remainder before the cast (modular step first)"
            elif r.get("k") == "use" and r["o"][0] == "k":
                return "constant"
            elif r.get("k") == "cast" and r["ck"] in ("IntToFloat",):
                return "value converted from an integer"
    return None


def two_sided_guard(f, b, srcs):
    lower = upper = False
    for sb in f.dominators().get(b, ()):
        bs = bool_switch(f, sb)
        if not bs:
            continue
        l, fb, tb = bs
        pol, root = bool_origin(f, l)
        if root[0] != "rv" or root[2].get("k") != "bin" or root[2]["op"] not in ("Lt", "Le", "Gt", "Ge"):
            continue
        r = root[2]
        la, lb = op_local(r["a"]), op_local(r["b"])
        a_in = la is not None and bool(float_sources(f, la) & srcs)
        b_in = lb is not None and bool(float_sources(f, lb) & srcs)
        if a_in == b_in:
            continue
        op = r["op"]
        if b_in:
            op = {"Lt": "Gt", "Le": "Ge", "Gt": "Lt", "Ge": "Le"}[op]
        in_true = b in f.reach_from([tb], avoid={sb})
        in_false = b in f.reach_from([fb], avoid={sb})
        if in_true and in_false:
            continue
        holds = in_true if pol else in_false      # the comparison `x OP c` holds on the path to the cast
        if (op in ("Gt", "Ge")) == holds:
            lower = True
        else:
            upper = True
    return lower and upper


def r1(db, rep):
    rep.rule("R1", "float→int casts on the element-conversion paths have a range-limited or constant operand (no saturation "
                   "before the modular step)")
    n = 0
    ords = {}
    for f in db.fns.values():
        if not f.mentions("FloatToInt") or not in_scope(f):
            continue
        if f.span.endswith("tests.rs") or "/tests" in f.span:
            continue
        name = cname(f.id).split("::{closure")[0]
        for b in sorted(f.reachable()):
            for s in f.blocks[b]["s"]:
                r = s["r"]
                if r.get("k") != "cast" or r["ck"] != "FloatToInt":
                    continue
                n += 1
                ok_ = (name, r["from"], r["ty"])
                ords[ok_] = ords.get(ok_, -1) + 1
                key = f"{name}:{r['from']}-as-{r['ty']}:{ords[ok_]}"
                why = None
                o = r["o"]
                if o[0] == "k":
                    why = "constant"
                else:
                    l = op_local(o)
                    srcs = float_sources(f, l) if l is not None else set()
                    why = limited_by_definition(f, srcs)
                    if why is None and two_sided_guard(f, b, srcs):
                        why = "dominated by lower and upper bound comparisons"
                if why is None and name in AUDITED_CASTS:
                    why = "audited: " + AUDITED_CASTS[name]
                rep.ob("R1", key, why is not None,
                       f"{name}: `{r['from']} as {r['ty']}` at {f.file}:{s.get('ln')} saturates for out-of-range values before any "
                       f"modular step — ECMAScript's ToInt/ToUint conversions wrap (e.g. 3.5e38 must become 0, 239 as int8 "
                       f"must become -17)", loc=f"{f.file}:{s.get('ln')}")
    rep.floor("R1", "float-to-int casts on conversion paths", n, 16)


def r2(db, rep):
    rep.rule("R2", "SliceRef::get_value / SliceRefMut::set_value: receiver from subslice()/subslice_mut() in the same function, "
                   "and a validation call dominates the access")
    n = 0
    for f in db.fns.values():
        if not f.id.startswith("boa_engine::builtins") or not (f.mentions("get_value") or f.mentions("set_value")):
            continue
        if f.file.endswith("array_buffer/utils.rs") or f.span.endswith("tests.rs") or "/tests" in f.span:
            continue
        name = cname(f.id).split("::{closure")[0]
        k = -1
        for b, t in f.calls():
            c = cn(t)
            if c not in ("SliceRef::get_value", "SliceRefMut::set_value"):
                continue
            k += 1
            n += 1
            l = op_local(t["args"][0]) if t["args"] else None
            prov = provenance(f, l) if l is not None else set()
            from_sub = False
            for p in prov:
                for bb, i, rr in f.defs().get(p, []):
                    if i == "t" and cn(rr).split("::")[-1] in ("subslice", "subslice_mut"):
                        from_sub = True
            # closures: validation may sit in the parent function
            g = f
            doms = [cn(g.blocks[x]["t"]) for x in g.dominators().get(b, ()) if g.blocks[x]["t"]["t"] == "call"]
            validated = any(VALIDATORS.search(x) for x in doms)
            if not validated and f.rec.get("parent") in db.fns:
                par = db.fns[f.rec["parent"]]
                validated = any(VALIDATORS.search(cn(tt)) for _, tt in par.calls())
            rep.ob("R2", f"{name}:{c.split('::')[-1]}:{k}", from_sub and validated,
                   f"{name}: unsafe {c} at {f.loc(b)} "
                   f"{'on a slice not produced by subslice()' if not from_sub else 'without a dominating index/length validation'}"
                   f" — an out-of-bounds element access touches other memory", loc=f.loc(b))
    rep.floor("R2", "unsafe element accesses", n, 8)


def r3(db, rep):
    rep.rule("R3", "raw byte copies are called only from audited functions with pointers taken by as_ptr() from subslice()d "
                   "references")
    n = 0
    for f in db.fns.values():
        if not f.id.startswith("boa_engine::builtins") or not (f.mentions("memcpy") or f.mentions("memmove") or
                                                               f.mentions("copy_shared_to_shared")):
            continue
        if f.span.endswith("tests.rs") or "/tests" in f.span or "::tests::" in f.id:
            continue
        name = cname(f.id).split("::{closure")[0]
        k = -1
        for b, t in f.calls():
            c = cn(t)
            if c not in RAW_COPIES:
                continue
            k += 1
            n += 1
            rep.ob("R3", f"{name}:{c.split('::')[-1]}:caller", name in RAW_COPY_CALLERS,
                   f"{name} calls the raw copy primitive {c} ({f.loc(b)}) but is not an audited caller", loc=f.loc(b))
            if name.startswith("utils::"):
                continue
            okp = True
            for a in t["args"]:
                l = op_local(a)
                if l is None:
                    continue
                ty = f.locals[l]
                if "BytesConstPtr" not in ty and "BytesMutPtr" not in ty:
                    continue
                prov = provenance(f, l, extra=("add", "offset", "sub", "byte_add"))
                from_ptr = False
                arith = False
                for p in prov:
                    for bb, i, rr in f.defs().get(p, []):
                        if i == "t":
                            m = cn(rr).split("::")[-1]
                            if m in ("as_ptr", "as_mut_ptr"):
                                from_ptr = True
                            if m in ("with_addr", "from_exposed_addr", "with_exposed_provenance", "without_provenance",
                                     "dangling", "null", "null_mut", "transmute"):
                                arith = True   # pointer manufactured from an integer / nothing
                        elif isinstance(rr, dict) and rr.get("k") == "cast" and "Expos" in rr.get("ck", ""):
                            arith = True
                from_ptr = from_ptr and not arith
                if not from_ptr:
                    okp = False
            rep.ob("R3", f"{name}:{c.split('::')[-1]}:{k}:pointer-provenance", okp,
                   f"{name}: a pointer passed to {c} at {f.loc(b)} does not come from as_ptr() of a bounds-checked slice "
                   f"reference", loc=f.loc(b))
    rep.floor("R3", "raw copy call sites", n, 6)


KIND = "boa_engine::builtins::typed_array::TypedArrayKind"


def r4(db, rep):
    rep.rule("R4", "bytes are transferred verbatim between two typed-array views only when their element kinds are equal: in a "
                   "function that holds two TypedArrayKind values, every raw copy lies on the equal side of an ==/!= test of "
                   "two TypedArrayKind values (any other pair needs the per-element conversion, e.g. Int8 -> Uint8Clamped)")
    n = 0
    for f in db.fns.values():
        if not f.id.startswith("boa_engine::builtins::typed_array") or "{closure" in f.id:
            continue
        if not (f.mentions("memcpy") or f.mentions("memmove") or f.mentions("copy_shared_to_shared")):
            continue
        if f.span.endswith("tests.rs") or "/tests" in f.span or "::tests::" in f.id:
            continue
        kinds = [i for i, t in enumerate(f.locals) if t == KIND and f.var_name(i)]
        if len(kinds) < 2:
            continue
        name = cname(f.id)
        k = 0
        for b, t in f.calls():
            if cn(t) not in RAW_COPIES:
                continue
            n += 1
            ok = False
            for sb in f.dominators().get(b, ()):
                bs = bool_switch(f, sb)
                if not bs:
                    continue
                fl, fb, tb = bs
                pol, root = bool_origin(f, fl)
                if root[0] != "call":
                    continue
                c = (root[2].get("rf") or callee(root[2]) or "")
                m = c.split("::")[-1]
                g = (root[2].get("g") or "")
                is_kind_cmp = m in ("eq", "ne") and (g.replace(" ", "") == f"{KIND},{KIND}" or f"<{KIND} as core::cmp::PartialEq>" in c)
                if not is_kind_cmp:
                    continue
                truth_is_equal = (m == "eq") == bool(pol)
                equal, differ = (tb, fb) if truth_is_equal else (fb, tb)
                if b in f.reach_from([equal], avoid={sb}) and b not in f.reach_from([differ], avoid={sb}):
                    ok = True
            rep.ob("R4", f"{name}:{cn(t).split('::')[-1]}:{k}:same-kind-only", ok,
                   f"{name} copies raw bytes between two views ({f.loc(b)}) on a path that is not the equal side of a "
                   f"TypedArrayKind == TypedArrayKind test: for different kinds the elements must go through "
                   f"GetValueFromBuffer/SetValueInBuffer (Int8 -1 into Uint8Clamped is 0, not 255)", loc=f.loc(b))
            k += 1
    rep.floor("R4", "raw copies between two views", n, 3)


# calls that take `&mut Context` but cannot run script (audited by reading)
NO_SCRIPT_WITH_CONTEXT = {
    "SliceRef::clone": "CloneArrayBuffer with the %ArrayBuffer% intrinsic as constructor: allocation only, no observable "
                       "side effects (spec note in SetTypedArrayFromTypedArray step 19.c)",
}


def r5(db, rep):
    rep.rule("R5", "a buffer-length witness is not reused after code that can run script: between the call that produced the "
                   "`len` handed to bytes_with_len(len) (which slices the buffer to that length without looking at the current "
                   "one) and that use there is no call taking `&mut Context` — argument conversions can detach or shrink a "
                   "resizable buffer (RevalidateAtomicAccess and friends)")
    n = 0
    for f in db.fns.values():
        if not f.id.startswith("boa_engine::builtins") or not f.mentions("bytes_with_len"):
            continue
        if f.span.endswith("tests.rs") or "/tests" in f.span or "::tests::" in f.id:
            continue
        name = cname(f.id)
        k = 0
        ctx_calls = None
        for b, t in f.calls():
            c = cn(t)
            if c.split("::")[-1] not in ("bytes_with_len", "bytes_with_len_mut") or len(t["args"]) < 2:
                continue
            if c.startswith("SharedArrayBuffer::"):
                continue          # shared buffers only grow: an old length is still inside the block
            l = op_local(t["args"][1])
            rs = roots(f, l) if l is not None else []
            if any(r[0] == "arg" for r in rs) and all(r[0] in ("arg",) for r in rs):
                continue          # accessor wrapper: the length is the caller's business (checked at the caller)
            n += 1
            if ctx_calls is None:
                ctx_calls = [bb for bb, tt in f.calls() if cn(tt) not in NO_SCRIPT_WITH_CONTEXT
                             if any(op_local(a) is not None and f.locals[op_local(a)].replace(" ", "") in
                                    ("&mutboa_engine::context::Context", "&mutboa_engine::Context") for a in tt["args"])]
            bad = None
            # a length read out of a tuple/struct returned by a call: the producer is that call
            for _ in range(4):
                if not any(r[0] == "place" for r in rs):
                    break
                rs = [x for r in rs for x in ([r] if r[0] != "place" else roots(f, r[1][0]))]
            for r in rs:
                if r[0] != "call":
                    continue
                pb = r[1]
                after = f.reach_from(f.succs(pb))
                for cb in ctx_calls:
                    if cb != pb and cb in after and b in f.reach_from(f.succs(cb)):
                        bad = (pb, cb)
                        break
                if bad:
                    break
            rep.ob("R5", f"{name}:bytes_with_len:{k}:fresh-length", bad is None,
                   f"{name} slices the buffer with a length obtained at {f.loc(bad[0]) if bad else ''} after calling "
                   f"{cn(f.blocks[bad[1]]['t']) if bad else ''} ({f.loc(bad[1]) if bad else ''}), which can run script: a "
                   f"valueOf that shrinks or detaches the resizable buffer makes bytes_with_len panic (`&s[..len]`) or "
                   f"access stale bounds instead of throwing the specified TypeError/RangeError", loc=f.loc(b))
            k += 1
    rep.floor("R5", "bytes_with_len uses with a locally produced length", n, 6)


def r1b(db, rep):
    rep.rule("R1b", "no element conversion rounds half away from zero: f64::round / f32::round never feed a float→int cast on the "
                    "conversion paths (ToUint8Clamp rounds ties to even, every other conversion truncates)")
    n = 0
    for f in db.fns.values():
        if not in_scope(f) or not f.mentions("FloatToInt"):
            continue
        if f.span.endswith("tests.rs") or "/tests" in f.span:
            continue
        name = cname(f.id).split("::{closure")[0]
        k = 0
        for b in sorted(f.reachable()):
            for st in f.blocks[b]["s"]:
                r = st["r"]
                if r.get("k") != "cast" or r["ck"] != "FloatToInt" or r["o"][0] == "k":
                    continue
                n += 1
                l = op_local(r["o"])
                bad = None
                for x in (roots(f, l) if l is not None else []):
                    if x[0] == "call" and (callee(x[2]) or "").split("::")[-1] == "round" and \
                            ("impl f64" in (callee(x[2]) or "") or "impl f32" in (callee(x[2]) or "")):
                        bad = x[1]
                rep.ob("R1b", f"{name}:{r['from']}-as-{r['ty']}:{k}:rounding", bad is None,
                       f"{name} rounds with f64::round (ties away from zero) before converting to {r['ty']} "
                       f"({f.file}:{st.get('ln')}): ToUint8Clamp rounds ties to even — `new Uint8ClampedArray(new "
                       f"Float64Array([0.5, 2.5]))` must be [0, 2], and the element store `a[i] = 2.5` already gives 2",
                       loc=f"{f.file}:{st.get('ln')}")
                k += 1
    rep.floor("R1b", "float→int casts on conversion paths", n, 12)


ARITH_CALLS = ("min", "max", "saturating_sub", "saturating_add", "checked_sub", "checked_add", "wrapping_sub", "wrapping_add",
               "try_from", "try_into", "into", "from", "unwrap", "expect", "unwrap_or", "clamp", "abs", "branch", "js_expect",
               "clone", "unwrap_or_default", "ok", "map")
RAW_LENGTHS = ("SliceRef::len", "SliceRefMut::len", "ArrayBuffer::len", "SharedArrayBuffer::len", "BufferObject::len")


def _value_sources(f, local):
    """terminal producers of an integer value: follows copies, casts, arithmetic (both operands) and min/max/saturating_*
    style calls (all arguments); returns the canonical names of the calls it stops at"""
    seen, out = set(), set()
    st = [local]
    while st and len(seen) < 600:
        cur = st.pop()
        if cur in seen:
            continue
        seen.add(cur)
        for b, i, r in f.defs().get(cur, []):
            if isinstance(r, dict) and r.get("k") == "partial":
                r = r["r"] if isinstance(r.get("r"), dict) and "k" in r["r"] else None
                if r is None:
                    continue
            if i == "t":
                c = cn(r)
                if c.split("::")[-1] in ARITH_CALLS:
                    for a in r["args"]:
                        if a[0] in ("c", "m"):
                            st.append(a[1][0])
                else:
                    out.add(c if not (callee(r) or "").endswith("<impl [T]>::len") else "[T]::len")
                continue
            k = r.get("k")
            if k in ("use", "cast", "un"):
                if r["o"][0] in ("c", "m"):
                    st.append(r["o"][1][0])
            elif k in ("bin", "checked"):
                for o in (r["a"], r["b"]):
                    if o[0] in ("c", "m"):
                        st.append(o[1][0])
            elif k in ("ref", "discr"):
                st.append(r["p"][0])
            elif k == "agg":
                for o in r["ops"]:
                    if o[0] in ("c", "m"):
                        st.append(o[1][0])
    return out


def r7(db, rep):
    rep.rule("R7", "the byte count of a raw copy between typed-array views is a whole number of elements: it is computed from "
                   "element counts and element sizes (array_length, element_size, relative indices) and is never bounded by "
                   "the raw byte length of the buffer, which need not be a multiple of the element size after a resize")
    n = 0
    for f in db.fns.values():
        if not f.id.startswith("boa_engine::builtins::typed_array") or "{closure" in f.id or "::tests" in f.id:
            continue
        if not (f.mentions("memcpy") or f.mentions("memmove") or f.mentions("copy_shared_to_shared")):
            continue
        name = cname(f.id)
        k = 0
        for b, t in f.calls():
            if cn(t) not in RAW_COPIES or not t["args"]:
                continue
            l = op_local(t["args"][-1])
            if l is None:
                continue
            n += 1
            srcs = _value_sources(f, l)
            raw = sorted(x for x in srcs if x in RAW_LENGTHS or x == "[T]::len")
            rep.ob("R7", f"{name}:{cn(t).split('::')[-1]}:{k}:whole-elements", not raw,
                   f"{name}: the byte count of {cn(t)} ({f.loc(b)}) is bounded by the raw buffer length ({raw}): after "
                   f"`rab.resize(n)` inside an argument's valueOf with (n - byteOffset) % elementSize != 0, copyWithin moves up "
                   f"to elementSize-1 bytes that lie behind the last whole element of the view", loc=f.loc(b))
            k += 1
    rep.floor("R7", "raw copies in the typed-array builtins", n, 4)


def _ctx_calls(f):
    return [bb for bb, tt in f.calls() if cn(tt) not in NO_SCRIPT_WITH_CONTEXT
            if any(op_local(a) is not None and f.locals[op_local(a)].replace(" ", "") in
                   ("&mutboa_engine::context::Context", "&mutboa_engine::Context") for a in tt["args"])]


def _slice_producer(f, l, depth=0):
    """call blocks that produced the byte slice in local l (through Option/Result payloads, reborrows, derefs)"""
    out = set()
    for r in roots(f, l):
        if r[0] == "call":
            m = cn(r[2]).split("::")[-1]
            if m in ("deref", "deref_mut", "as_ref", "as_mut", "unwrap", "expect", "as_slice", "as_mut_slice", "borrow",
                     "borrow_mut") and r[2]["args"] and depth < 4 and op_local(r[2]["args"][0]) is not None:
                out |= _slice_producer(f, op_local(r[2]["args"][0]), depth + 1)
            else:
                out.add(r[1])
        elif r[0] == "place" and depth < 4:
            out |= _slice_producer(f, r[1][0], depth + 1)
    return out


def r6(db, rep):
    rep.rule("R6", "a byte slice obtained after code that can run script is range-indexed only under its own length: in the "
                   "buffer builtins, every `slice[a..b]` reachable from a call taking `&mut Context` is dominated by a len() of "
                   "the slice produced by the same call (lengths computed before the script ran may be stale)")
    n = 0
    for f in db.fns.values():
        if not f.id.startswith(("boa_engine::builtins::array_buffer", "boa_engine::builtins::dataview",
                                "boa_engine::builtins::typed_array", "boa_engine::builtins::atomics")):
            continue
        if not f.mentions("ops::index::Index") or "{closure" in f.id:
            continue
        if f.span.endswith("tests.rs") or "/tests" in f.span or "::tests::" in f.id:
            continue
        ctx = _ctx_calls(f)
        if not ctx:
            continue
        after_ctx = set()
        for cb in ctx:
            after_ctx |= f.reach_from(f.succs(cb))
        name = cname(f.id)
        lens = []
        for b, t in f.calls():
            if (callee(t) or "").endswith("<impl [T]>::len") and t["args"] and op_local(t["args"][0]) is not None:
                lens.append((b, _slice_producer(f, op_local(t["args"][0]))))
        k = 0
        for b, t in f.calls():
            c = t.get("rf") or callee(t) or ""
            if not (c.startswith("core::slice::index::<impl core::ops::index::Index") and c.endswith(("::index", "::index_mut"))):
                continue
            if len(t["args"]) < 2 or op_local(t["args"][1]) is None or "Range" not in f.locals[op_local(t["args"][1])]:
                continue
            if "[u8]" not in f.locals[op_local(t["args"][0])] and "AtomicU8" not in f.locals[op_local(t["args"][0])]:
                continue
            if b not in after_ctx:
                continue
            prod = _slice_producer(f, op_local(t["args"][0]))
            if not prod or not (prod & after_ctx):
                continue          # the slice itself predates the script-capable calls (a borrow is held: nothing can resize it)
            if all(cn(f.blocks[pb]["t"]).startswith("SharedArrayBuffer::") for pb in prod):
                continue          # shared buffers only grow: a length read earlier is still inside the block
            n += 1
            ok = any(f.dominates(lb, b) and (lp & prod) for lb, lp in lens)
            rep.ob("R6", f"{name}:range-index:{k}:own-length", ok,
                   f"{name} indexes a buffer slice by a range ({f.loc(b)}) after script could run, without consulting the "
                   f"current length of that slice: a species constructor / valueOf that shrinks the resizable buffer makes "
                   f"the index panic instead of copying the bytes that still exist", loc=f.loc(b))
            k += 1
    rep.floor("R6", "range indexes of fresh buffer slices after script-capable calls", n, 2)  # to_buf and from_buf in ArrayBuffer::slice


def run(db, rep, tier):
    r1(db, rep)
    r1b(db, rep)
    r2(db, rep)
    r3(db, rep)
    r4(db, rep)
    r5(db, rep)
    r6(db, rep)
    r7(db, rep)
    # R8 = C12-R1: every float read from a buffer becomes a JsValue through bits::tag_f64; the compile-time witness over
    # `mod bits` decides that every NaN bit pattern (the raw bytes a Float64Array / DataView can deliver) reads back as
    # the number NaN and as nothing else
    import c12

    class _As:
        """presents the shared rule under this property's own rule number"""
        def __init__(self, rep, name):
            self._rep, self._name = rep, name

        def __getattr__(self, k):
            v = getattr(self._rep, k)
            if k in ("rule", "ob", "violation", "floor", "anchor"):
                return lambda rule, *a, **kw: v(self._name, *a, **kw)
            return v
    c12.r1(_As(rep, "R8"))
    rep.assumptions += ["subslice()/subslice_mut() panic on an out-of-range start (slice indexing), they never produce a "
                        "dangling reference"]
