"""C08 — runtime limits stop runaway scripts and cannot be intercepted.

Decided (necessary structural clauses; the numeric behaviour is not decided):
  R1  every loop-statement lowering emits IncrementLoopIteration between the address its
      back edge (and its `continue` target) jumps to and the back-edge jump itself
  R1b IncrementLoopIteration::operation compares the frame counter with the configured limit,
      raises RuntimeLimitError::LoopIteration on the exceeding side and increments otherwise
  R2  every function stored in a [[Call]]/[[Construct]] slot checks the runtime limits on
      every path to Ok(..), or delegates to another slot, or is an audited constant-work leaf;
      check_runtime_limits itself contains both comparisons
  R3  handler search / pending_exception in handle_error are reachable only for catchable
      errors; JsError::into_opaque refuses engine errors; writers of Vm.pending_exception audited
  R5  every push of a call frame is preceded by a limit check: each call of Vm::push_frame / push_frame_with_stack is
      dominated by Context::check_runtime_limits in the same function, or the function is an audited pusher that can only
      be reached through a checked [[Call]] slot or from the host (direct eval is not a [[Call]]: perform_eval checks itself)
  R6  an operation that merges an incoming completion with the result of a script-capable call (IteratorClose) tests
      is_catchable on that result before it may return the incoming completion instead: a limit error raised inside
      `return()` is not replaced by the catchable throw it interrupted
  R4  the CompletionRecord produced by running or resuming an activation (Context::run,
      GeneratorContext::resume) is never discarded: the record is returned, handed on by value, or its
      Throw payload flows to the caller's return value / an error sink; and no caller turns "is a throw
      completion" into a panic (an uncatchable limit error is the one Throw that always gets this far)
"""
from facts import (call_blocks, cn, callee, cname, roots, op_local, bool_switch, bool_origin,
                   assigns_to_field, place_fields)

CRATES = ["boa_engine"]
EXPLANATION = (
    "Static path/dominance rules over the MIR of boa_engine (all Rust paths of the bytecode "
    "compiler's loop lowerings, all functions stored in InternalObjectMethods.__call__/__construct__, "
    "Context::handle_error, JsError::into_opaque, IncrementLoopIteration::operation, "
    "Context::check_runtime_limits). Each rule instance is a call site / function; the rule holds "
    "for every program because it constrains every path of the compiler/VM code that all programs "
    "share. Not decided: that the numeric limit is honoured for every grid point.")

LOOP_TYPES = ["ForLoop", "ForInLoop", "ForOfLoop", "WhileLoop", "DoWhileLoop"]
CONTINUE_REGISTRARS = {
    "ByteCompiler::push_loop_control_info", "ByteCompiler::push_loop_control_info_for_of_in_loop",
    "ByteCompiler::push_loop_control_info_for_await_of_loop", "JumpControlInfo::set_start_address",
    "JumpControlInfo::with_start_address",
}
INCR = "BytecodeEmitter::emit_increment_loop_iteration"
NEXT_LOC = "ByteCompiler::next_opcode_location"

# [[Call]] slots that do constant work and never re-enter script (audited by reading):
LEAF_SLOTS = {
    "is_html_dda::is_html_dda_call": "pops its arguments and pushes undefined; no re-entry, no frame",
}
# functions allowed to write Vm.pending_exception, with the reason the stored error is catchable
PENDING_WRITERS = {
    "Context::handle_error": "gated by is_catchable (R3)",
    "Throw::operation": "JsError::from_opaque(value) is an opaque (catchable) error",
    "CheckReturn::operation": "JsNativeError TypeError / this-binding ReferenceError (native errors)",
    "GeneratorNext::operation": "error thrown into the generator by the resumer: from_opaque / resume value",
    "Vm::new": "initialisation to None",
    "GeneratorResumeReturn::operation": "resume completion value",
}


def loop_lowerings(db):
    out = []
    for f in db.fns.values():
        if not f.id.startswith("boa_engine::bytecompiler"):
            continue
        if "ByteCompiler" not in (f.rec.get("self") or ""):
            continue
        ls = f.locals
        for n in range(1, f.rec["argc"] + 1):
            t = ls[n]
            for lt in LOOP_TYPES:
                if t == f"&boa_ast::statement::{lt}" or t == f"&boa_ast::statement::iteration::{lt}" \
                        or (t.startswith("&") and t.endswith("::" + lt)):
                    out.append((f, lt))
    return out


def address_roots(f, operand):
    """next_opcode_location calls an Address operand may come from"""
    l = op_local(operand)
    if l is None:
        return None
    rs = roots(f, l)
    calls = [r for r in rs if r[0] == "call" and cn(r[2]) == NEXT_LOC]
    other = [r for r in rs if not (r[0] == "call" and cn(r[2]) == NEXT_LOC)]
    return calls, other


def r1(db, rep):
    rep.rule("R1", "every path of a loop lowering from the next_opcode_location() that defines the back-edge / "
                   "continue target to the back-edge emit_jump passes emit_increment_loop_iteration")
    lows = loop_lowerings(db)
    kinds = {lt for _, lt in lows}
    rep.floor("R1", "loop-lowering functions", len(lows), 5)
    for lt in LOOP_TYPES:
        rep.anchor("R1", f"lowering for boa_ast::statement::{lt}", lt in kinds)
    back_edges = 0
    for f, lt in lows:
        name = cname(f.id)
        incr = set(call_blocks(f, INCR))
        jumps = []
        for b, t in f.calls():
            if cn(t) == "BytecodeEmitter::emit_jump" and len(t["args"]) >= 2:
                ar = address_roots(f, t["args"][1])
                if ar and ar[0]:
                    jumps.append((b, ar[0]))
        if not jumps:
            rep.violation("R1", f"{name}:no-back-edge",
                          f"{name}: no emit_jump to a next_opcode_location() address found — the loop's back edge "
                          f"is not recognisable (anchor)", loc=f.span)
            continue
        targets = []  # (kind, def-block)
        for jb, cs in jumps:
            for c in cs:
                targets.append(("back-edge", jb, c[1]))
        # continue targets registered with the jump control
        nreg = 0
        for b, t in f.calls():
            if cn(t) in CONTINUE_REGISTRARS:
                for a in t["args"][1:]:
                    l = op_local(a)
                    if l is None or "Address" not in f.locals[l]:
                        continue
                    ar = address_roots(f, a)
                    if ar and ar[0]:
                        nreg += 1
                        for c in ar[0]:
                            for jb, _ in jumps:
                                targets.append(("continue-target", jb, c[1]))
        rep.ob("R1", f"{name}:continue-target-registered", nreg >= 1,
               f"{name}: no continue target (next_opcode_location) is registered with the loop's jump control",
               loc=f.span)
        seen = set()
        for kind, jb, db_ in targets:
            if (kind, jb, db_) in seen:
                continue
            seen.add((kind, jb, db_))
            back_edges += 1
            start = f.succs(db_)
            path = f.path_avoiding(start, incr, lambda x: x == jb)
            ok = path is None and len(incr) > 0
            ordinal = sorted(x for x in seen if x[0] == kind).index((kind, jb, db_))
            rep.ob("R1", f"{name}:{kind}:{ordinal}", ok,
                   f"{name}: a path from the {kind} address (defined {f.loc(db_)}) to the back-edge jump "
                   f"({f.loc(jb)}) emits no IncrementLoopIteration — iterations along it are not counted",
                   detail=[f"block path: {path}", f"increment blocks: {sorted(incr)}"], loc=f.loc(jb))
    rep.floor("R1", "back-edge/continue obligations", back_edges, 10)

    # other back edges in the bytecompiler (not loop statements): listed, never failing
    for f in db.fns.values():
        if not f.id.startswith("boa_engine::bytecompiler") or any(f is g for g, _ in lows):
            continue
        for b, t in f.calls():
            if cn(t) == "BytecodeEmitter::emit_jump" and len(t["args"]) >= 2:
                ar = address_roots(f, t["args"][1])
                if ar and ar[0]:
                    nm = cname(f.id)
                    if nm in ("ByteCompiler::close_active_iterators", "ByteCompiler::compile_expr_impl"):
                        rep.analysed.setdefault("R1.non-statement back edges (audited bounded)", []).append(nm)
                    else:
                        rep.note(f"unaudited back edge in {nm} at {f.loc(b)} (not a loop statement lowering; "
                                 f"whether it is bounded is not decided here)")


def r1b(db, rep):
    rep.rule("R1b", "IncrementLoopIteration::operation: counter compared with loop_iteration_limit(); the exceeding "
                    "side returns RuntimeLimitError::LoopIteration, the other side stores counter+1")
    fs = [f for f in db.fns.values() if cname(f.id) == "IncrementLoopIteration::operation"]
    if not rep.anchor("R1b", "IncrementLoopIteration::operation", fs):
        return
    f = fs[0]
    lim = call_blocks(f, "RuntimeLimits::loop_iteration_limit")
    if not rep.anchor("R1b", "call of RuntimeLimits::loop_iteration_limit", lim):
        return
    ok_cmp = False
    detail = []
    for b in sorted(f.reachable()):
        bs = bool_switch(f, b)
        if not bs:
            continue
        l, fb, tb = bs
        pol, root = bool_origin(f, l)
        if root[0] != "rv" or root[2].get("k") != "bin" or root[2]["op"] not in ("Gt", "Ge", "Lt", "Le"):
            continue
        r = root[2]

        def side(o):
            ll = op_local(o)
            if ll is None:
                return "?"
            rs = roots(f, ll)
            if any(x[0] == "call" and cn(x[2]) == "RuntimeLimits::loop_iteration_limit" for x in rs):
                return "limit"
            if any(x[0] == "place" and any(fl.endswith("loop_iteration_count") for fl in place_fields(x[1])) for x in rs):
                return "count"
            return "?"
        a, c = side(r["a"]), side(r["b"])
        if {a, c} != {"limit", "count"}:
            continue
        op = r["op"]
        # normalise to  count OP limit
        if a == "limit":
            op = {"Gt": "Lt", "Ge": "Le", "Lt": "Gt", "Le": "Ge"}[op]
        exceed_on_true = op in ("Gt", "Ge")
        if not pol:
            exceed_on_true = not exceed_on_true
        exceed_t, within_t = (tb, fb) if exceed_on_true else (fb, tb)
        # exceeding side: constructs RuntimeLimitError::LoopIteration, never stores the counter, returns
        ex = f.reach_from([exceed_t])
        wi = f.reach_from([within_t])
        mk_err = [x for x in ex if any(s["r"].get("k") == "agg" and s["r"].get("adt", "").endswith("RuntimeLimitError")
                                        and s["r"].get("variant") == "LoopIteration" for s in f.blocks[x]["s"])]
        stores_ex = [bb for bb, s in assigns_to_field(f, "loop_iteration_count") if bb in ex and bb not in wi]
        stores_wi = [bb for bb, s in assigns_to_field(f, "loop_iteration_count") if bb in wi]
        err_only = [x for x in mk_err if x not in wi]
        detail.append(f"switch bb{b}: count {op} limit, exceed->bb{exceed_t}, within->bb{within_t}, "
                      f"err blocks {err_only}, stores(within) {stores_wi}")
        escape = f.path_avoiding([exceed_t], set(err_only), lambda x: f.blocks[x]["t"]["t"] == "ret")
        detail.append(f"path from the exceeding side to return that builds no LoopIteration error: {escape}")
        if err_only and stores_wi and not stores_ex and escape is None:
            # the stored value is an increment of the previous count
            inc_ok = False
            for bb, s in assigns_to_field(f, "loop_iteration_count"):
                o = s["r"].get("o") if s["r"].get("k") == "use" else None
                ll = op_local(o) if o else None
                if ll is not None:
                    for x in roots(f, ll):
                        if x[0] == "call" and cn(x[2]).endswith(("::wrapping_add", "::saturating_add", "::checked_add")):
                            inc_ok = True
                        if x[0] == "rv" and x[2].get("k") == "bin" and x[2]["op"] in ("Add", "AddWithOverflow", "AddUnchecked"):
                            inc_ok = True
            ok_cmp = inc_ok
    rep.ob("R1b", "IncrementLoopIteration::operation:compare-and-count", ok_cmp,
           "IncrementLoopIteration::operation no longer has the shape `if count > limit {Err(LoopIteration)} else "
           "{count += 1}` (comparison sides, error side or increment missing)", detail=detail, loc=f.span)


def call_slots(db, rep):
    """functions stored in __call__ / __construct__ of any InternalObjectMethods static/const"""
    slots = {}
    nstat = 0
    for f in db.fns.values():
        if f.kind not in ("static", "constant", "const", "associated constant") and not f.kind.startswith(("static", "const")):
            continue
        if not f.mentions("InternalObjectMethods") or not f.locals or not f.locals[0].endswith("internal_methods::InternalObjectMethods"):
            continue
        nstat += 1
        for b in range(len(f.blocks)):
            for s in f.blocks[b]["s"]:
                r = s["r"]
                if r.get("k") == "agg" and r.get("adt", "").endswith("InternalObjectMethods"):
                    for fld, o in zip(r["fields"], r["ops"]):
                        if fld not in ("__call__", "__construct__"):
                            continue
                        if o[0] == "k" and "fn" in o[1]:
                            slots.setdefault(o[1]["fn"], set()).add((fld, cname(f.id)))
                            continue
                        l = op_local(o)
                        if l is not None:
                            for x in roots(f, l):
                                if x[0] == "rv" and x[2].get("k") == "cast" and x[2]["o"][0] == "k" and "fn" in x[2]["o"][1]:
                                    slots.setdefault(x[2]["o"][1]["fn"], set()).add((fld, cname(f.id)))
                                elif x[0] == "const" and "fn" in x[1]:
                                    slots.setdefault(x[1]["fn"], set()).add((fld, cname(f.id)))
                        # copies of another table's slot (`..ORDINARY_INTERNAL_METHODS`) add no new function
    rep.analysed["R2.InternalObjectMethods tables"] = nstat
    return slots, nstat


def r2(db, rep):
    rep.rule("R2", "every [[Call]]/[[Construct]] slot function passes check_runtime_limits (or delegates to another "
                   "slot via JsObject::__call__/__construct__) on every path that returns Ok")
    slots, nstat = call_slots(db, rep)
    rep.floor("R2", "InternalObjectMethods tables", nstat, 12)
    rep.floor("R2", "distinct slot functions", len(slots), 9)
    GUARDS = ("Context::check_runtime_limits", "InternalMethodCallContext::check_runtime_limits")
    # delegation: the callee's own slot performs the check
    DELEG = ("JsObject::__call__", "JsObject::__construct__", "JsObject::call", "JsObject::construct",
             "JsValue::call", "JsFunction::call")
    for path in sorted(slots):
        f = db.fns.get(path)
        nm = cname(path)
        if f is None:
            rep.violation("R2", f"{nm}:body-missing", f"slot function {path} has no analysable body")
            continue
        short = "::".join(path.split("::")[-2:])
        if short in LEAF_SLOTS:
            # audited leaf: must stay a leaf (no call that can re-enter the VM)
            reenter = [cn(t) for b, t in f.calls() if cn(t) in ("Context::run", "JsObject::call", "JsObject::construct",
                                                               "JsValue::call", "JsObject::__call__", "JsObject::__construct__")]
            rep.ob("R2", f"{nm}:audited-leaf", not reenter,
                   f"{nm} is audited as a constant-work leaf slot but now calls {reenter}", loc=f.span)
            continue
        guards = set()
        for b, t in f.calls():
            c = cn(t)
            if c in GUARDS or c in DELEG or (c.endswith("::check_runtime_limits")):
                guards.add(b)
        # blocks that produce an Ok(..) return value
        okb = []
        for b in sorted(f.reachable()):
            for s in f.blocks[b]["s"]:
                if s["p"] == [0] and s["r"].get("k") == "agg" and s["r"].get("variant") == "Ok":
                    okb.append(b)
            t = f.blocks[b]["t"]
            if t["t"] == "call" and t["dest"] == [0] and cn(t) not in ("Result::from_residual", "FromResidual::from_residual"):
                okb.append(b)
        if not okb:
            # a slot that can only fail (non_existent_call) needs no check
            rep.ob("R2", f"{nm}:never-ok", True, loc=f.span)
            continue
        for i, ob in enumerate(okb):
            if ob in guards:
                path_ = None
            else:
                path_ = f.path_avoiding([0], guards, lambda x, ob=ob: x == ob)
            rep.ob("R2", f"{nm}:ok-exit:{i}", path_ is None,
                   f"{nm} ({sorted(k for k, _ in slots[path])} slot) can return Ok at {f.loc(ob)} without "
                   f"check_runtime_limits or delegation to another slot — recursion through it is unbounded",
                   detail=[f"block path: {path_}"], loc=f.loc(ob))

    # check_runtime_limits has both comparisons, each leading to its error
    fs = [f for f in db.fns.values() if cname(f.id) == "Context::check_runtime_limits"]
    if rep.anchor("R2", "Context::check_runtime_limits", fs):
        f = fs[0]
        for lim, err in (("RuntimeLimits::recursion_limit", "Recursion"), ("RuntimeLimits::stack_size_limit", "StackSize")):
            found = False
            for b in sorted(f.reachable()):
                bs = bool_switch(f, b)
                if not bs:
                    continue
                l, fb, tb = bs
                pol, root = bool_origin(f, l)
                if root[0] != "rv" or root[2].get("k") != "bin" or root[2]["op"] not in ("Gt", "Ge", "Lt", "Le"):
                    continue
                sides = []
                for o in (root[2]["a"], root[2]["b"]):
                    ll = op_local(o)
                    rs = roots(f, ll) if ll is not None else []
                    sides.append(any(x[0] == "call" and cn(x[2]) == lim for x in rs))
                if not any(sides):
                    continue
                op = root[2]["op"]
                # normalise to  limit OP depth ; exceeded when limit <= depth
                if sides[1] and not sides[0]:
                    op = {"Gt": "Lt", "Ge": "Le", "Lt": "Gt", "Le": "Ge"}[op]
                exceed_on_true = op in ("Lt", "Le")
                if not pol:
                    exceed_on_true = not exceed_on_true
                et, wt = (tb, fb) if exceed_on_true else (fb, tb)
                ex = f.reach_from([et]) - f.reach_from([wt])
                if any(s["r"].get("k") == "agg" and s["r"].get("variant") == err and
                       s["r"].get("adt", "").endswith("RuntimeLimitError") for x in ex for s in f.blocks[x]["s"]):
                    found = True
            rep.ob("R2", f"Context::check_runtime_limits:{err}", found,
                   f"check_runtime_limits: the comparison with {lim} no longer leads to RuntimeLimitError::{err} "
                   f"on the exceeding side", loc=f.span)


def r3(db, rep):
    rep.rule("R3", "handle_error reaches handle_exception_at / pending_exception only on the is_catchable()==true side; "
                   "JsError::into_opaque returns Err for engine errors; pending_exception writers are audited")
    fs = [f for f in db.fns.values() if cname(f.id) == "Context::handle_error"]
    if rep.anchor("R3", "Context::handle_error", fs):
        f = fs[0]
        gate = None
        for b in sorted(f.reachable()):
            bs = bool_switch(f, b)
            if not bs:
                continue
            l, fb, tb = bs
            pol, root = bool_origin(f, l)
            if root[0] == "call" and cn(root[2]) == "JsError::is_catchable":
                gate = (b, tb, fb) if pol else (b, fb, tb)
        if rep.anchor("R3", "is_catchable test in handle_error", gate):
            sb, catch_t, uncatch_t = gate
            un = f.reach_from([uncatch_t], avoid={sb})
            sens = []
            for b, t in f.calls():
                if cn(t) in ("Vm::handle_exception_at", "Context::handle_throw"):
                    sens.append((b, cn(t)))
            for b, s in assigns_to_field(f, "pending_exception"):
                sens.append((b, "write of Vm.pending_exception"))
            rep.floor("R3", "gated sites in handle_error", len(sens), 3)
            for i, (b, what) in enumerate(sorted(sens)):
                ok = b not in un and f.dominates(sb, b)
                rep.ob("R3", f"Context::handle_error:{what}:{i}", ok,
                       f"handle_error: {what} at {f.loc(b)} is reachable for an uncatchable (engine) error — a catch/"
                       f"finally block could observe a RuntimeLimitError", loc=f.loc(b))
            # the uncatchable side returns Break(Throw(err)) without handler search: it must reach ret
            rep.ob("R3", "Context::handle_error:uncatchable-returns", any(f.blocks[x]["t"]["t"] == "ret" for x in un),
                   "handle_error: the uncatchable side does not return", loc=f.span)
    # into_opaque
    fs = [f for f in db.fns.values() if cname(f.id) == "JsError::into_opaque"]
    if rep.anchor("R3", "JsError::into_opaque", fs):
        f = fs[0]
        adt = db.adts.get("boa_engine::error::Repr")
        ok = False
        if rep.anchor("R3", "enum boa_engine::error::Repr", adt):
            idx = [i for i, v in enumerate(adt["variants"]) if v["name"] == "Engine"]
            if rep.anchor("R3", "Repr::Engine variant", idx):
                eng = str(idx[0])
                for b in sorted(f.reachable()):
                    t = f.blocks[b]["t"]
                    if t["t"] != "switch":
                        continue
                    l = op_local(t["o"])
                    d = f.single_def(l) if l is not None else None
                    if not d or d[1] == "t" or d[2].get("k") != "discr":
                        continue
                    if not any(fl.endswith("JsError.inner") for fl in place_fields(d[2]["p"])):
                        continue
                    assigns0 = [x for x in f.reach_from([b]) if any(s_["p"] == [0] for s_ in f.blocks[x]["s"])]
                    if not assigns0:
                        continue  # drop-elaboration ladder after the result was produced
                    if eng in t["vals"]:
                        tgt = t["tgts"][t["vals"].index(eng)]
                    else:
                        tgt = t["tgts"][-1]
                    others = [x for x in t["tgts"] if x != tgt]
                    r = f.reach_from([tgt]) - f.reach_from(others)
                    okret = any(s["p"] == [0] and s["r"].get("k") == "agg" and s["r"].get("variant") == "Ok"
                                for x in r for s in f.blocks[x]["s"])
                    errret = any(s["p"] == [0] and s["r"].get("k") == "agg" and s["r"].get("variant") == "Err"
                                 for x in r for s in f.blocks[x]["s"])
                    ok = errret and not okret
        rep.ob("R3", "JsError::into_opaque:engine-arm-is-Err", ok,
               "JsError::into_opaque: the Repr::Engine arm no longer returns Err — an engine error could be "
               "converted to a script value and caught", loc=f.span)
    # writers of pending_exception
    writers = {}
    for f in db.fns.values():
        if not f.id.startswith("boa_engine::") or not f.mentions("pending_exception"):
            continue
        for b, s in assigns_to_field(f, "Vm.pending_exception"):
            writers.setdefault(cname(f.id), f)
    rep.floor("R3", "writers of Vm.pending_exception", len(writers), 3)
    for w, f in sorted(writers.items()):
        base = w.split("::{closure")[0]
        rep.ob("R3", f"pending_exception-writer:{base}", base in PENDING_WRITERS,
               f"{w} writes Vm.pending_exception but is not in the audited writer table (an engine error stored "
               f"there would be handed to script handlers)", loc=f.span)


RECORD_PRODUCERS = ("Context::run", "GeneratorContext::resume")


def record_fate(f, local):
    """how the CompletionRecord in `local` leaves the function: set of 'returned', 'moved:<callee>', 'payload-returned',
    'payload-moved:<callee>', 'inspected'"""
    fate = set()
    D = {local}           # locals holding the record by value
    P = set()             # locals holding (something built from) the Throw payload
    changed = True
    while changed:
        changed = False
        for b in f.reachable():
            for s in f.blocks[b]["s"]:
                r = s["r"]
                k = r.get("k")
                ops = [r["o"]] if k in ("use", "cast") else r["ops"] if k == "agg" else []
                for o in ops:
                    if o[0] not in ("c", "m"):
                        continue
                    src = o[1]
                    tgt = s["p"][0]
                    if src[0] in D and len(src) == 1 and k == "use" and len(s["p"]) == 1:
                        if tgt not in D:
                            D.add(tgt); changed = True
                    elif src[0] in D and len(src) > 1:
                        if tgt not in P:
                            P.add(tgt); changed = True
                    elif src[0] in D and k == "agg":
                        if tgt not in D:
                            D.add(tgt); changed = True      # wrapped: ControlFlow::Break(record), Poll::Ready(record)
                    elif src[0] in P:
                        if tgt not in P:
                            P.add(tgt); changed = True
                if k == "discr" and r["p"][0] in D:
                    fate.add("inspected")
            t = f.blocks[b]["t"]
            if t["t"] == "call":
                c = cn(t)
                for a in t["args"]:
                    if a[0] != "m" or len(a[1]) != 1:
                        continue
                    if a[1][0] in D and not c.endswith("::drop"):
                        fate.add("moved:" + c)
                        # conversions keep the record/its error alive in the result
                        if c.split("::")[-1] in ("consume", "into", "from", "branch", "from_residual", "map_err", "map") \
                                and t.get("dest") and len(t["dest"]) == 1 and t["dest"][0] not in P:
                            P.add(t["dest"][0]); changed = True
                    if a[1][0] in P and not c.endswith("::drop"):
                        fate.add("payload-moved:" + c)
                        if t.get("dest") and len(t["dest"]) == 1 and t["dest"][0] not in P:
                            P.add(t["dest"][0]); changed = True
    if 0 in D:
        fate.add("returned")
    if 0 in P:
        fate.add("payload-returned")
    return fate, D


def rust_panic_only(f, b, depth=0):
    """block `b` inevitably ends in a Rust panic (core::panicking::*), following gotos"""
    t = f.blocks[b]["t"]
    if t["t"] == "call":
        c = callee(t) or ""
        if c.startswith(("core::panicking::", "std::rt::begin_panic", "core::panicking")):
            return True
        if "to" in t and depth < 6 and (c.startswith("core::fmt::") or "Arguments" in c):
            return rust_panic_only(f, t["to"], depth + 1)
        return False
    if t["t"] == "goto" and depth < 6:
        return rust_panic_only(f, t["to"] if "to" in t else t["tgt"], depth + 1)
    return False


def r4(db, rep):
    rep.rule("R4", "the CompletionRecord of Context::run / GeneratorContext::resume is returned, handed on by value, or its "
                   "Throw payload reaches the caller's return value; it is never dropped and never asserted not to be a throw")
    n = 0
    for f in db.fns.values():
        if not f.id.startswith("boa_engine::") or "::tests" in f.id or not f.mentions("CompletionRecord"):
            continue
        sites = [(b, t) for b, t in f.calls() if cn(t) in RECORD_PRODUCERS]
        base = cname(f.id)
        for i, (b, t) in enumerate(sites):
            if not t.get("dest") or len(t["dest"]) != 1:
                continue
            n += 1
            fate, D = record_fate(f, t["dest"][0])
            ok = bool(fate & {"returned", "payload-returned"}) or any(
                x.startswith("moved:") or x.startswith("payload-moved:") for x in fate)
            rep.ob("R4", f"{base}:{cn(t).split('::')[-1]}:{i}:record-consumed", ok,
                   f"{base} discards the completion record of {cn(t)} ({f.loc(b)}): when the resumed/run activation ends "
                   f"with an uncatchable error (runtime limit), the error vanishes — the job or call succeeds and the host "
                   f"is never told", loc=f.loc(b))
            # the record is never asserted to be non-throwing
            for bb, tt in f.calls():
                if cn(tt) != "CompletionRecord::is_throw_completion" or not tt["args"] or "to" not in tt:
                    continue
                l = op_local(tt["args"][0])
                if l is None or not any(r[0] == "call" and r[1] == b for r in roots(f, l)):
                    continue
                bad = False
                for sb in f.reach_from([tt["to"]]):
                    x = bool_switch(f, sb)
                    if not x:
                        continue
                    org = bool_origin(f, x[0])[1]
                    if org[0] == "call" and org[1] == bb:
                        bad = any(rust_panic_only(f, arm) for arm in (x[1], x[2]))
                        break
                rep.ob("R4", f"{base}:{cn(t).split('::')[-1]}:{i}:throw-not-asserted-absent", not bad,
                       f"{base} asserts that the record of {cn(t)} is not a throw completion ({f.loc(bb)}); a runtime-limit "
                       f"error raised by the resumed body is exactly such a record, so the script aborts the process",
                       loc=f.loc(bb))
    rep.floor("R4", "Context::run / GeneratorContext::resume call sites", n, 11)


AUDITED_PUSHERS = {
    "Vm::push_frame_with_stack": "wrapper around push_frame (its callers are the instances)",
    "GeneratorContext::resume": "reached only from native functions (%GeneratorPrototype%.next/return/throw, the Await and "
                                "async-generator continuations), each of which is a [[Call]] slot checked by R2",
    "JsPromise::await_native": "promise reaction handlers: native functions entered through a checked [[Call]]",
    "Json::parse": "JSON.parse is a native function ([[Call]] checked); the evaluated text cannot call anything",
    "Script::prepare_run": "host entry; script can re-enter it only through a host-defined native ([[Call]] checked)",
    "SourceTextModule::execute": "module bodies run once, driven by the host / by promise jobs (C17-R2), never recursively by script",
    "SourceTextModule::initialize_environment": "module linking, host driven",
    "SyntheticModule::evaluate": "host-defined module evaluation steps, host driven",
}


def r5(db, rep):
    rep.rule("R5", "every Vm::push_frame / push_frame_with_stack is dominated by check_runtime_limits in its function, or the "
                   "function is an audited pusher reachable only through a checked [[Call]] slot / from the host")
    n = 0
    for f in db.fns.values():
        if not f.id.startswith("boa_engine::") or not f.mentions("push_frame"):
            continue
        if "::tests" in f.id or f.span.endswith("tests.rs") or "/tests" in f.span:
            continue
        base = cname(f.id).split("::{closure")[0]
        checks = [b for b, t in f.calls() if cn(t) == "Context::check_runtime_limits"]
        k = 0
        for b, t in f.calls():
            if cn(t) not in ("Vm::push_frame", "Vm::push_frame_with_stack"):
                continue
            n += 1
            ok = any(f.dominates(c, b) for c in checks)
            if ok:
                rep.ob("R5", f"{base}:{cn(t).split('::')[-1]}:{k}:limit-checked", True, loc=f.loc(b))
            else:
                rep.ob("R5", f"{base}:{cn(t).split('::')[-1]}:{k}:limit-checked-or-audited", base in AUDITED_PUSHERS,
                       f"{cname(f.id)} pushes a call frame ({f.loc(b)}) without a dominating check_runtime_limits and is not an "
                       f"audited pusher: script can recurse through it without ever being compared with the recursion / "
                       f"stack-size limit (direct `eval(s)` with s = \"eval(s)\" nested 100 frames under a limit of 16)",
                       loc=f.loc(b))
            k += 1
    rep.floor("R5", "frame push sites", n, 11)


def r6(db, rep):
    rep.rule("R6", "a function that takes an incoming completion (a JsResult parameter) and makes script-capable calls tests "
                   "is_catchable on each such call's result: an engine error is never replaced by the incoming completion")
    n = 0
    for f in db.fns.values():
        if not f.id.startswith("boa_engine::builtins::iterable") or "{closure" in f.id or "::tests" in f.id:
            continue
        params = [i for i in range(1, f.rec["argc"] + 1) if "Result<boa_engine::value::JsValue, boa_engine::error::JsError>" in
                  f.locals[i].replace("core::result::", "")]
        if not params:
            continue
        name = cname(f.id)
        catch_tests = []
        for b, t in f.calls():
            if cn(t) == "JsError::is_catchable" and t["args"]:
                l = op_local(t["args"][0])
                catch_tests.append(set(provenance_of(f, l)) if l is not None else set())
        k = 0
        for b, t in f.calls():
            if not t.get("dest") or len(t["dest"]) != 1:
                continue
            dty = f.locals[t["dest"][0]]
            if "JsError" not in dty or not dty.replace("core::result::", "").startswith("Result<"):
                continue
            if not any(op_local(a) is not None and f.locals[op_local(a)].replace(" ", "") in
                       ("&mutboa_engine::context::Context", "&mutboa_engine::Context") for a in t["args"]):
                continue
            n += 1
            d = t["dest"][0]
            ok = any(d in ct for ct in catch_tests)
            rep.ob("R6", f"{name}:{cn(t).split('::')[-1]}:{k}:engine-error-kept", ok,
                   f"{name} can discard the result of {cn(t)} ({f.loc(b)}) in favour of its incoming completion without testing "
                   f"is_catchable: `it.return = () => {{ while (true) {{}} }}` under a loop limit, closed because the mapping "
                   f"function threw, lets `try/catch` observe the throw and carry on — the limit error vanishes", loc=f.loc(b))
            k += 1
    rep.floor("R6", "script-capable calls in completion-merging operations", n, 2)


def provenance_of(f, l):
    from facts import provenance
    return provenance(f, l, extra=("as_ref", "as_mut", "branch", "unwrap_err", "err", "as_deref"))


def run(db, rep, tier):
    r1(db, rep)
    r1b(db, rep)
    r2(db, rep)
    r3(db, rep)
    r4(db, rep)
    r5(db, rep)
    r6(db, rep)
    rep.assumptions += [
        "bytecode emitted between two Rust program points is straight-line with respect to the loop head "
        "(R1 reasons over the compiler's Rust CFG, not over emitted jumps)",
        "MIR at mir-opt-level=0 of the cli feature set (annex-b, intl_bundled, temporal, experimental)",
    ]
