"""C09 — the collector frees exactly the unreachable objects, exactly once.

Graph histories are out of reach of a static argument; three necessary structural clauses are decided:
  R1  sibling agreement: for every `impl Trace` with its own trace / trace_non_roots / run_finalizer bodies, the three
      bodies visit the same fields of self and sit under the same guards (root detection is
      ref_count > non_root_count: a body that visits a field the others skip mis-roots or frees a reachable object)
  R2  collector phase order in Collector::collect: trace_non_roots ≺ mark_heap ≺ finalize ≺ mark_heap ≺ sweep ≺ weak-map
      retain on every path; sweep / dump drop boxes only under a live DropGuard; survivors are unmarked and their
      non-root count reset on the marked arm of both retains
  R3  dead-handle drops are inert: every Drop::drop generated for / written on a Trace type calls Finalize::finalize only
      under finalizer_safe(); Gc::drop tests it
Not decided: exactness of the mark / ephemeron fix-point for all graphs.
"""
from facts import (cn, callee, cname, roots, op_local, place_fields, bool_switch, bool_origin)
import c10

CRATES = None
EXPLANATION = (
    "Sibling-agreement rule over all three tracing methods of every `impl boa_gc::Trace` in the workspace (fields of self "
    "visited + guard calls dominating the delegated tracing calls), an ordering/dominance rule over the MIR of "
    "boa_gc::Collector::{collect, sweep, dump}, and a dominance rule over every Drop::drop of a Trace type. Instances "
    "are impls, phase call sites and drop bodies. They hold for every allocation history because they constrain the "
    "collector's own code. Not decided: exactness of marking for all graphs.")

TRACE = "boa_gc::trace::Trace"
PHASES = ["Collector::trace_non_roots", "Collector::mark_heap", "Collector::finalize", "Collector::mark_heap",
          "Collector::sweep"]


def guard_calls(f, delegated):
    """names of calls whose result decides a switch dominating some delegated tracing call"""
    out = set()
    for b in delegated:
        for sb in f.dominators().get(b, ()):
            t = f.blocks[sb]["t"]
            if t["t"] != "switch":
                continue
            l = op_local(t["o"])
            if l is None:
                continue
            # through discriminant()
            d = f.single_def(l)
            srcs = []
            if d and d[1] != "t" and d[2].get("k") == "discr":
                srcs = roots(f, d[2]["p"][0])
            else:
                srcs = roots(f, l)
            for r in srcs:
                if r[0] == "call":
                    out.add(cn(r[2]))
                elif r[0] == "place":
                    fl = place_fields(r[1])
                    if fl:
                        out.add("field:" + fl[-1].split(".")[-1])
    return out


def r1(db, rep):
    rep.rule("R1", "trace / trace_non_roots / run_finalizer of the same impl visit the same fields of self under the same guards")
    n = 0
    for i in db.impls:
        if i["trait"] != TRACE:
            continue
        fns = {}
        for it in i["items"]:
            nm = it.split("::")[-1]
            if nm in ("trace", "trace_non_roots", "run_finalizer") and it in db.fns:
                fns[nm] = db.fns[it]
        if len(fns) < 3:
            continue
        if i["self"].startswith(("boa_gc::pointers::gc::Gc<", "boa_gc::pointers::ephemeron::Ephemeron<")):
            # the pointer types are the base of the protocol: trace marks/enqueues the box, trace_non_roots counts the
            # handle as a non-root on the same box, run_finalizer does nothing further
            tn = {cn(t).split("::")[-1] for _, t in fns["trace_non_roots"].calls()}
            tr = {cn(t).split("::")[-1] for _, t in fns["trace"].calls()}
            rep.ob("R1", f"{i['self'].split('<')[0]}:pointer-protocol",
                   "inc_non_root_count" in tn and bool({"mark", "enqueue"} & tr),
                   f"impl Trace for {i['self']}: trace must mark/enqueue the box and trace_non_roots must "
                   f"inc_non_root_count it (got trace:{sorted(tr)} / trace_non_roots:{sorted(tn)})", loc=i["span"])
            continue
        n += 1
        desc = {}
        for nm, f in fns.items():
            touched, whole = c10.touched_fields(f)
            want = {"trace": ("trace",), "trace_non_roots": ("trace_non_roots",), "run_finalizer": ("run_finalizer",)}[nm]
            delegated = [b for b, t in f.calls() if cn(t).split("::")[-1] in want or cn(t).split("::")[-1] == "mark"
                         or (callee(t) or "").startswith(f.id + "::")   # the impl's own `mark` helper fn / closure
                         or cn(t).endswith("::trace_non_roots") or cn(t).endswith("::run_finalizer")]
            # helper closures/fns named `mark` wrap the delegated call
            guards = guard_calls(f, delegated)
            desc[nm] = (frozenset(touched), whole, frozenset(guards), len(delegated) > 0)
        base = desc["trace"]
        for nm in ("trace_non_roots", "run_finalizer"):
            d = desc[nm]
            same_fields = d[0] == base[0] and d[1] == base[1]
            same_guards = d[2] == base[2]
            ty = i["self"].split("<")[0]
            rep.ob("R1", f"{ty}:{nm}-agrees-with-trace", same_fields and same_guards and d[3] == base[3],
                   f"impl Trace for {i['self']}: `{nm}` and `trace` disagree — fields {sorted(map(str, d[0] ^ base[0]))} / "
                   f"guards {sorted(d[2] ^ base[2])} differ: a handle counted as non-root but never marked (or the reverse) is "
                   f"freed while reachable or never freed", loc=i["span"])
    rep.floor("R1", "Trace impls with three bodies", n, 300)


def r2(db, rep):
    rep.rule("R2", "Collector::collect runs trace_non_roots, mark_heap, finalize, mark_heap, sweep, weak-map retain in this "
                   "order on every path; sweep and dump hold a DropGuard; both retains unmark and reset survivors")
    fs = [f for f in db.fns.values() if cname(f.id) == "Collector::collect" and f.krate == "boa_gc"]
    if rep.anchor("R2", "boa_gc Collector::collect", fs):
        f = fs[0]
        order = f._rpo()
        calls = [(order.index(b), b, cn(t)) for b, t in f.calls() if cn(t) in set(PHASES) or cn(t) == "Vec::retain"]
        calls.sort()
        names = [c for _, _, c in calls]
        rep.ob("R2", "collect:phase-sequence", names == PHASES + ["Vec::retain"],
               f"Collector::collect phase calls are {names}, expected {PHASES + ['Vec::retain']}", loc=f.span)
        if names == PHASES + ["Vec::retain"]:
            bl = [b for _, b, _ in calls]
            tnr, m1, fin, m2, sw, ret = bl
            checks = [
                ("trace_non_roots dominates the first mark_heap", f.dominates(tnr, m1)),
                ("the first mark_heap dominates finalize and sweep", f.dominates(m1, fin) and f.dominates(m1, sw)),
                ("finalize is followed by the second mark_heap before sweep on every path",
                 f.path_avoiding(f.succs(fin), {m2}, lambda x: x == sw) is None),
                ("sweep dominates the weak-map retain", f.dominates(sw, ret)),
                ("every path to return passes sweep", f.path_avoiding([0], {sw}, lambda x: f.blocks[x]["t"]["t"] == "ret") is None),
            ]
            for what, ok in checks:
                rep.ob("R2", "collect:" + what.replace(" ", "-"), ok, f"Collector::collect: not true that {what}", loc=f.span)
            # the finalize phase may be skipped only when *every* list of Unreachables is empty: for each Vec field F, the
            # non-empty edge of `is_empty(&unreachables.F)` cannot reach sweep without passing finalize (or finalize is ungated)
            adt = [a for k, a in db.adts.items() if k.startswith("boa_gc::") and k.endswith("::Unreachables")]
            if rep.anchor("R2", "struct boa_gc::Unreachables", adt):
                fields = [fl["n"] for fl in adt[0]["variants"][0]["fields"]]
                rep.floor("R2", "lists in Unreachables", len(fields), 2)
                ungated = f.path_avoiding(f.succs(m1), {fin}, lambda x: x == sw) is None
                for fld in fields:
                    ok = ungated
                    for b2, t2 in f.calls():
                        if ok or not cn(t2).endswith("::is_empty") or not t2["args"] or "to" not in t2:
                            continue
                        la = op_local(t2["args"][0])
                        if la is None or not any(r[0] == "place" and any(x.endswith("Unreachables." + fld) for x in place_fields(r[1]))
                                                 for r in roots(f, la)):
                            continue
                        for sb in f.reach_from([t2["to"]]):
                            bs = bool_switch(f, sb)
                            if not bs:
                                continue
                            pol, org = bool_origin(f, bs[0])
                            if org[0] != "call" or org[1] != b2:
                                continue
                            nonempty = bs[1] if pol else bs[2]     # is_empty() == false
                            if f.path_avoiding([nonempty], {fin}, lambda x: x == sw) is None:
                                ok = True
                            break
                    rep.ob("R2", f"collect:finalize-runs-when-{fld}-nonempty", ok,
                           f"Collector::collect can skip the finalize phase although unreachables.{fld} is not empty: those boxes "
                           f"are swept without being finalized (dead ephemeron values keep phantom reference counts: the target "
                           f"stays rooted, is never finalized or freed, and weak pointers to it keep upgrading)", loc=f.span)
    for nm in ("Collector::sweep", "Collector::dump"):
        fs = [f for f in db.fns.values() if cname(f.id) == nm and f.krate == "boa_gc"]
        if not rep.anchor("R2", nm, fs):
            continue
        f = fs[0]
        guards = [b for b, t in f.calls() if cn(t) == "DropGuard::new"]
        # boxes are dropped inside the retain closures / loops: the guard must be created before any of them runs
        frees = [b for b, t in f.calls() if cn(t) in ("Vec::retain", "Box::from_raw", "mem::take") or cn(t).endswith("::drop_fn")]
        ok = bool(guards) and all(f.dominates(guards[0], b) for b in frees if cn(f.blocks[b]["t"]) == "Vec::retain")
        if nm == "Collector::dump":
            # dump: the guard must exist before the strong/weak boxes are dropped (weak maps first is allowed)
            ok = bool(guards)
        rep.ob("R2", f"{nm}:under-DropGuard", ok,
               f"{nm} drops boxes without a live DropGuard: Gc handles inside the dropped values would run their Drop logic "
               f"against freed boxes", loc=f.span)
    # survivors: unmark + reset_non_root_count in both retain closures of sweep
    n = 0
    for f in db.fns.values():
        if f.krate != "boa_gc" or not f.id.startswith("boa_gc::Collector::sweep::{closure"):
            continue
        n += 1
        names = {cn(t).split("::")[-1] for _, t in f.calls()}
        rep.ob("R2", f"{cname(f.id)}:survivor-reset", {"unmark", "reset_non_root_count"} <= names,
               f"{cname(f.id)}: a surviving box is not unmarked / its non-root count is not reset — the next collection starts "
               f"from stale marks and mis-detects roots", loc=f.span)
    rep.floor("R2", "sweep retain closures", n, 2)


def r3(db, rep):
    rep.rule("R3", "Drop::drop of a Trace type calls Finalize::finalize only under finalizer_safe()")
    trace_types = {i["self"].split("<")[0] for i in db.impls if i["trait"] == TRACE}
    n = 0
    for i in db.impls:
        if i["trait"] != "core::ops::drop::Drop":
            continue
        ty = i["self"].split("<")[0]
        if ty not in trace_types:
            continue
        f = None
        for it in i["items"]:
            if it.endswith("::drop") and it in db.fns:
                f = db.fns[it]
        if f is None:
            continue
        fin = [b for b, t in f.calls() if cn(t).endswith("Finalize::finalize") or cn(t).split("::")[-1] == "finalize"]
        if not fin:
            continue
        n += 1
        ok = True
        for b in fin:
            gated = False
            for sb in f.dominators().get(b, ()):
                bs = bool_switch(f, sb)
                if not bs:
                    continue
                l, fb, tb = bs
                pol, root = bool_origin(f, l)
                if root[0] == "call" and cn(root[2]).endswith("finalizer_safe"):
                    good = tb if pol else fb
                    if b in f.reach_from([good], avoid={sb}) and b not in f.reach_from([fb if pol else tb], avoid={sb}):
                        gated = True
            ok = ok and gated
        rep.ob("R3", f"{ty}:drop-finalize-gated", ok,
               f"Drop for {i['self']}: Finalize::finalize is reachable while the collector is sweeping (no finalizer_safe() "
               f"test) — a dead handle's drop would touch freed boxes / finalize twice", loc=i["span"])
    rep.floor("R3", "Drop impls of Trace types that finalize", n, 100)


def r4(db, rep):
    rep.rule("R4", "the ephemeron fix-point in Collector::mark_heap leaves its loop only after comparing the number of pending "
                   "ephemerons after the pass (len() taken after retain_mut) with the number before that same pass (a value not "
                   "reassigned between the pass and the comparison)")
    fs = [f for f in db.fns.values() if cname(f.id) == "Collector::mark_heap" and f.krate == "boa_gc"]
    if not rep.anchor("R4", "boa_gc Collector::mark_heap", fs):
        return
    f = fs[0]
    rets = [b for b, t in f.calls() if cn(t).split("::")[-1] in ("retain_mut", "retain") and t["args"] and
            op_local(t["args"][0]) is not None]
    rets = [b for b in rets if b in f.reach_from(f.succs(b))]     # inside a loop
    if not rep.anchor("R4", "retain_mut over the pending ephemerons inside a loop", rets):
        return
    R = rets[0]
    after = f.reach_from(f.succs(R), avoid={R})
    ok = False
    detail = []
    for sb in sorted(after):
        bs = bool_switch(f, sb)
        if not bs:
            continue
        l, fb, tb = bs
        exits = [x for x in (fb, tb) if R not in f.reach_from([x])]
        stays = [x for x in (fb, tb) if R in f.reach_from([x])]
        if len(exits) != 1 or len(stays) != 1:
            continue
        pol, root = bool_origin(f, l)
        if root[0] != "rv" or root[2].get("k") != "bin":
            detail.append(f"loop exit at {f.loc(sb)} is not decided by a comparison")
            continue
        # blocks of this iteration between the pass and the exit test
        between = {x for x in after if sb in f.reach_from([x], avoid={R})} | {sb}
        cur_ok = prev_ok = False
        for o in (root[2]["a"], root[2]["b"]):
            lo = op_local(o)
            if lo is None:
                continue
            rs = roots(f, lo)
            if any(r[0] == "call" and cn(r[2]).split("::")[-1] == "len" and r[1] in between for r in rs):
                cur_ok = True
                continue
            # the remembered size: follow copies to the variable, none of whose assignments may lie between
            base = lo
            for _ in range(8):
                d = f.single_def(base)
                if d and d[1] != "t" and d[2].get("k") == "use" and d[2]["o"][0] in ("c", "m") and len(d[2]["o"][1]) == 1:
                    base = d[2]["o"][1][0]
                    continue
                break
            defs_between = [b for b, i, r in f.defs().get(base, []) if b in between and not (b == sb)]
            # a plain copy into a temp inside `between` is fine; a (re)assignment of the variable itself is not
            if f.var_name(base) is not None or len(f.defs().get(base, [])) > 1:
                prev_ok = not defs_between
            detail.append(f"remembered size `{f.var_name(base) or '_' + str(base)}` assigned between pass and test at blocks {defs_between}")
        if cur_ok and prev_ok:
            ok = True
    rep.ob("R4", "Collector::mark_heap:ephemeron-fixpoint-exit", ok,
           "Collector::mark_heap: the ephemeron loop can stop although the last pass still made progress (its exit test does "
           "not compare the size after the pass with the size before it) — values reachable only through a chain of "
           "ephemerons are then swept while alive", detail=detail, loc=f.span)


def run(db, rep, tier):
    r1(db, rep)
    r2(db, rep)
    r3(db, rep)
    r4(db, rep)
