"""Fact database + MIR-lite analyses (CFG, dominators, value origins, call graph)."""
import json
import os
import re
from collections import defaultdict, deque


_HEAD = re.compile(r'^\{"k":"fn","id":"((?:[^"\\]|\\.)*)","kind":"([^"]*)"')
_NAME = re.compile(r'"name":"((?:[^"\\]|\\.)*)","argc"')


class Fn:
    """one function body; the JSON line is parsed lazily on first access to `rec`/`blocks`"""
    __slots__ = ("_rec", "_raw", "id", "krate", "kind", "_name", "_succ", "_pred", "_dom", "_defs", "_reach", "_pdom")

    def __init__(self, raw, krate):
        self._raw = raw
        self._rec = None
        m = _HEAD.match(raw)
        if m and "\\" not in m.group(1):
            self.id = m.group(1)
            self.kind = m.group(2)
            n = _NAME.search(raw, m.end(), m.end() + 1500)
            self._name = n.group(1) if n else None
        else:
            r = json.loads(raw)
            self._rec = r
            self._raw = None
            self.id = r["id"]
            self.kind = r["kind"]
            self._name = r.get("name")
        self.krate = krate
        self._succ = None
        self._pred = None
        self._dom = None
        self._defs = None
        self._reach = None
        self._pdom = None

    @property
    def rec(self):
        if self._rec is None:
            self._rec = json.loads(self._raw)
            self._raw = None
        return self._rec

    @property
    def blocks(self):
        return self.rec["blocks"]

    def mentions(self, *subs):
        """cheap prefilter: does the (unparsed) record text contain all substrings?  True once parsed."""
        if self._raw is None:
            return True
        return all(x in self._raw for x in subs)

    # ------------------------------------------------------------- basics
    @property
    def name(self):
        return self._name

    @property
    def span(self):
        return self.rec.get("span", "?")

    @property
    def file(self):
        return self.span.rsplit(":", 1)[0]

    @property
    def locals(self):
        return self.rec["locals"]

    def var_name(self, local):
        for n, p in self.rec.get("vars", {}).items():
            if p == [local]:
                return n
        return None

    def var_local(self, name):
        p = self.rec.get("vars", {}).get(name)
        if p and len(p) == 1:
            return p[0]
        return None

    def term(self, b):
        return self.blocks[b]["t"]

    def is_cleanup(self, b):
        return self.blocks[b].get("c") == 1

    def succs(self, b, unwind=False):
        """normal successors (unwind edges only when asked)"""
        t = self.blocks[b]["t"]
        k = t["t"]
        out = []
        if k == "goto":
            out = [t["to"]]
        elif k == "switch":
            out = list(t["tgts"])
        elif k in ("call", "drop", "assert", "yield"):
            if "to" in t:
                out = [t["to"]]
        if unwind and "unw" in t:
            out = out + [t["unw"]]
        return out

    def normal_succ_map(self):
        if self._succ is None:
            self._succ = [self.succs(b) for b in range(len(self.blocks))]
        return self._succ

    def preds(self):
        if self._pred is None:
            p = [[] for _ in self.blocks]
            for b, ss in enumerate(self.normal_succ_map()):
                for s in ss:
                    p[s].append(b)
            self._pred = p
        return self._pred

    def reachable(self):
        """blocks reachable from entry along normal edges"""
        if self._reach is None:
            seen = {0}
            st = [0]
            sm = self.normal_succ_map()
            while st:
                b = st.pop()
                for s in sm[b]:
                    if s not in seen:
                        seen.add(s)
                        st.append(s)
            self._reach = seen
        return self._reach

    def calls(self, reachable_only=True):
        """yield (block, terminator) for call terminators on the normal CFG"""
        r = self.reachable() if reachable_only else range(len(self.blocks))
        for b in sorted(r):
            t = self.blocks[b]["t"]
            if t["t"] == "call":
                yield b, t

    def exits(self):
        return [b for b in self.reachable() if self.blocks[b]["t"]["t"] == "ret"]

    # ------------------------------------------------------------- dominators
    def dominators(self):
        """dom[b] = set of blocks dominating b on the normal CFG (iterative)."""
        if self._dom is None:
            reach = sorted(self.reachable())
            preds = self.preds()
            allb = set(reach)
            dom = {b: set(allb) for b in reach}
            dom[0] = {0}
            order = self._rpo()
            changed = True
            while changed:
                changed = False
                for b in order:
                    if b == 0:
                        continue
                    ps = [p for p in preds[b] if p in allb]
                    if not ps:
                        continue
                    new = set.intersection(*(dom[p] for p in ps)) | {b}
                    if new != dom[b]:
                        dom[b] = new
                        changed = True
            self._dom = dom
        return self._dom

    def _rpo(self):
        sm = self.normal_succ_map()
        seen = set()
        post = []
        st = [(0, iter(sm[0]))]
        seen.add(0)
        while st:
            b, it = st[-1]
            adv = False
            for s in it:
                if s not in seen:
                    seen.add(s)
                    st.append((s, iter(sm[s])))
                    adv = True
                    break
            if not adv:
                post.append(b)
                st.pop()
        return post[::-1]

    def dominates(self, a, b):
        d = self.dominators()
        return b in d and a in d[b]

    # ------------------------------------------------------------- defs
    def defs(self):
        """local -> list of (block, stmt_index or 't', rvalue-or-terminator) that assign the
        whole local (no projection)."""
        if self._defs is None:
            d = defaultdict(list)
            for b, blk in enumerate(self.blocks):
                for i, s in enumerate(blk["s"]):
                    p = s["p"]
                    if len(p) == 1:
                        d[p[0]].append((b, i, s["r"]))
                    else:
                        d[p[0]].append((b, i, {"k": "partial", "p": p, "r": s["r"]}))
                t = blk["t"]
                if t["t"] == "call":
                    p = t["dest"]
                    if len(p) == 1:
                        d[p[0]].append((b, "t", t))
                    else:
                        d[p[0]].append((b, "t", {"k": "partial", "p": p, "r": t}))
            self._defs = d
        return self._defs

    def single_def(self, local):
        ds = [x for x in self.defs().get(local, []) if not (isinstance(x[2], dict) and x[2].get("k") == "partial")]
        if len(ds) == 1:
            return ds[0]
        return None

    def origin(self, local, depth=0, through_ref=True):
        """Follow move/copy/(re)borrow chains backwards to the root definition.
        Returns ('call', block, term) | ('arg', n) | ('local', n) | ('place', place) | ('const', c) | ('rv', rvalue)"""
        seen = set()
        cur = local
        while True:
            if cur in seen or depth > 64:
                return ("local", cur)
            seen.add(cur)
            if 1 <= cur <= self.rec["argc"] and not self.single_def(cur):
                return ("arg", cur)
            d = self.single_def(cur)
            if d is None:
                return ("local", cur)
            b, i, r = d
            if i == "t":
                return ("call", b, r)
            k = r.get("k")
            if k == "use":
                o = r["o"]
                if o[0] == "k":
                    return ("const", o[1])
                pl = o[1]
                if len(pl) == 1:
                    cur = pl[0]
                    continue
                return ("place", pl)
            if k == "ref" and through_ref:
                pl = r["p"]
                if len(pl) == 1:
                    cur = pl[0]
                    continue
                if len(pl) == 2 and pl[1] == "*":
                    cur = pl[0]
                    continue
                return ("place", pl)
            if k == "cast" and r["ck"].startswith(("Ptr:", "Subtype", "Transmute")) is False and False:
                pass
            return ("rv", r)

    def place_root(self, place):
        """resolve a place's base local through reborrows: returns (origin, projections)"""
        return self.origin(place[0]), place[1:]

    # ------------------------------------------------------------- path queries
    def path_avoiding(self, start_blocks, avoid, goal):
        """BFS along normal edges from start_blocks; never enters a block in `avoid`;
        returns a block path to the first block satisfying goal(b), else None."""
        sm = self.normal_succ_map()
        prev = {}
        dq = deque()
        for s in start_blocks:
            if s in avoid or s in prev:
                continue
            prev[s] = None
            dq.append(s)
        while dq:
            b = dq.popleft()
            if goal(b):
                path = []
                while b is not None:
                    path.append(b)
                    b = prev[b]
                return path[::-1]
            for s in sm[b]:
                if s not in prev and s not in avoid:
                    prev[s] = b
                    dq.append(s)
        return None

    # ------------------------------------------------------------- path-sensitive search
    def _interesting(self):
        """locals whose value decides a switch (directly, via discriminant(), or via a copy)"""
        it = set()
        for blk in self.blocks:
            t = blk["t"]
            if t["t"] == "switch" and t["o"][0] in ("c", "m") and len(t["o"][1]) == 1:
                it.add(t["o"][1][0])
        changed = True
        while changed:
            changed = False
            for blk in self.blocks:
                for s in blk["s"]:
                    p = s["p"]
                    if len(p) != 1 or p[0] not in it:
                        continue
                    r = s["r"]
                    k = r.get("k")
                    src = None
                    if k == "discr" and len(r["p"]) == 1:
                        src = r["p"][0]
                    elif k == "use" and r["o"][0] in ("c", "m") and len(r["o"][1]) == 1:
                        src = r["o"][1][0]
                    elif k == "un" and r["o"][0] in ("c", "m") and len(r["o"][1]) == 1:
                        src = r["o"][1][0]
                    if src is not None and src not in it:
                        it.add(src)
                        changed = True
        return it

    def _multi_switched(self):
        """locals that decide more than one switch (only these are worth learning on an edge)"""
        m = getattr(self, "_multi", None) if False else self.rec.get("_multi")
        if m is None:
            cnt = defaultdict(int)
            for b, blk in enumerate(self.blocks):
                t = blk["t"]
                if t["t"] == "switch" and t["o"][0] in ("c", "m") and len(t["o"][1]) == 1:
                    l = t["o"][1][0]
                    cnt[l] += 1
                    d = self.single_def(l)
                    if d and d[1] != "t" and d[0] == b and d[2].get("k") == "use" and d[2]["o"][0] in ("c", "m") \
                            and len(d[2]["o"][1]) == 1:
                        cnt[d[2]["o"][1][0]] += 1
            m = {l for l, c in cnt.items() if c >= 2}
            self.rec["_multi"] = m
        return m

    def _transfer(self, b, known, interesting):
        """apply block b's statements to the knowledge map (local -> ('v', discr) | ('c', int))"""
        kn = dict(known)
        for s in self.blocks[b]["s"]:
            p = s["p"]
            r = s["r"]
            k = r.get("k")
            if k == "ref" and r.get("m") and r["p"] and r["p"][0] in kn:
                # mutable borrow: the value may change behind our back
                del kn[r["p"][0]]
            if k == "rawptr" and r["p"] and r["p"][0] in kn:
                del kn[r["p"][0]]
            l = p[0]
            if len(p) != 1:
                if l in kn and not (len(p) >= 2 and isinstance(p[1], str) and p[1].startswith("v:") and False):
                    # writing a field does not change the variant
                    pass
                continue
            val = None
            if l in interesting:
                if k == "agg" and r.get("ak") == "adt" and "dv" in r:
                    val = ("v", r["dv"])
                elif k == "setdiscr":
                    val = None
                elif k == "use":
                    o = r["o"]
                    if o[0] == "k" and "v" in o[1]:
                        val = ("c", o[1]["v"])
                    elif o[0] in ("c", "m") and len(o[1]) == 1 and o[1][0] in kn:
                        val = kn[o[1][0]]
                elif k == "discr" and len(r["p"]) == 1 and r["p"][0] in kn and kn[r["p"][0]][0] == "v":
                    val = ("c", kn[r["p"][0]][1])
                elif k == "un" and r["op"] == "Not" and r["o"][0] in ("c", "m") and len(r["o"][1]) == 1:
                    sv = kn.get(r["o"][1][0])
                    if sv and sv[0] == "c" and sv[1] in ("0", "1"):
                        val = ("c", "1" if sv[1] == "0" else "0")
            if val is not None:
                kn[l] = val
            elif l in kn:
                del kn[l]
        t = self.blocks[b]["t"]
        if t["t"] == "call":
            d = t["dest"]
            if d and d[0] in kn:
                del kn[d[0]]
        return kn

    def _feasible_succs(self, b, kn):
        """[(succ, knowledge-after-edge)]: prunes switch targets contradicting what is known, and
        learns the switched value on the edge taken (also for the local a switch temp was copied from)"""
        t = self.blocks[b]["t"]
        if t["t"] == "switch" and t["o"][0] in ("c", "m") and len(t["o"][1]) == 1:
            l = t["o"][1][0]
            v = kn.get(l)
            if v and v[0] == "c":
                if v[1] in t["vals"]:
                    return [(t["tgts"][t["vals"].index(v[1])], kn)]
                return [(t["tgts"][-1], kn)]
            # unknown: learn on each edge
            src = [l]
            d = self.single_def(l)
            if d and d[1] != "t" and d[0] == b and d[2].get("k") == "use" and d[2]["o"][0] in ("c", "m") \
                    and len(d[2]["o"][1]) == 1:
                src.append(d[2]["o"][1][0])
            src = [x for x in src if x in self._multi_switched()]
            isbool = self.locals[l] == "bool"
            out = []
            for val, tgt in zip(t["vals"], t["tgts"]):
                k2 = dict(kn)
                for x in src:
                    k2[x] = ("c", val)
                out.append((tgt, k2))
            k2 = kn
            if isbool and len(t["vals"]) == 1 and t["vals"][0] in ("0", "1"):
                k2 = dict(kn)
                for x in src:
                    k2[x] = ("c", "1" if t["vals"][0] == "0" else "0")
            out.append((t["tgts"][-1], k2))
            return out
        return [(s_, kn) for s_ in self.normal_succ_map()[b]]

    def path_search(self, start_blocks, avoid, goal, known=None, limit=300000, via=None):
        """like path_avoiding but path-sensitive for enum variants / constants assigned on the path and
        branch outcomes learned on the way (drop flags, `match variant`, `if flag {..} .. if flag {..}`).
        With `via=b` the search starts at the function entry and the path must first pass block b
        (knowledge gathered before b is kept; `avoid` and `goal` apply only after b).
        Returns a block path or None."""
        interesting = self._interesting()
        start_kn = dict(known or {})
        dq = deque()
        prev = {}
        if via is not None and not isinstance(via, (list, tuple)):
            via = [via]
        nvia = len(via) if via is not None else 0
        # phase = number of `via` blocks passed so far; avoid/goal apply once all were passed
        if via is not None:
            starts = [(0, 0)]
        else:
            starts = [(s, 0) for s in start_blocks]
        for s, ph in starts:
            if ph >= nvia and s in avoid:
                continue
            st = (s, tuple(sorted(start_kn.items())), ph)
            if st not in prev:
                prev[st] = None
                dq.append(st)
        n = 0
        while dq:
            st = dq.popleft()
            b, knt, ph = st
            n += 1
            if n > limit:
                # give up path sensitivity: fall back to the insensitive (over-approximate) answer
                if via is not None:
                    return self.path_avoiding(self.succs(via[-1]), avoid, goal)
                return self.path_avoiding(start_blocks, avoid, goal)
            if ph >= nvia and goal(b):
                path = []
                cur = st
                while cur is not None:
                    path.append(cur[0])
                    cur = prev[cur]
                return path[::-1]
            kn = self._transfer(b, dict(knt), interesting)
            ph2 = ph + 1 if (ph < nvia and b == via[ph]) else ph
            for s, kn2 in self._feasible_succs(b, kn):
                if ph2 >= nvia and s in avoid:
                    continue
                ns = (s, tuple(sorted(kn2.items())), ph2)
                if ns not in prev:
                    prev[ns] = st
                    dq.append(ns)
        return None

    def reach_from(self, start_blocks, avoid=()):
        sm = self.normal_succ_map()
        seen = set()
        st = [s for s in start_blocks if s not in avoid]
        seen.update(st)
        while st:
            b = st.pop()
            for s in sm[b]:
                if s not in seen and s not in avoid:
                    seen.add(s)
                    st.append(s)
        return seen

    def line_of(self, b):
        t = self.blocks[b]["t"]
        if "ln" in t:
            return t["ln"]
        for s in reversed(self.blocks[b]["s"]):
            if "ln" in s:
                return s["ln"]
        return None

    def loc(self, b):
        ln = self.line_of(b)
        return f"{self.file}:{ln}" if ln else self.span


def callee(t):
    """resolved callee path of a call terminator (trait calls resolved to the impl)"""
    return t.get("rf") or t.get("f")


_GEN = re.compile(r"::<[^<>]*(?:<[^<>]*(?:<[^<>]*>[^<>]*)*>[^<>]*)*>")


def strip_generics(path):
    """`a::B::<'ctx>::c` -> `a::B::c` ; keeps `<impl ..>` segments' inner text simplified"""
    if path is None:
        return None
    prev = None
    s = path
    while prev != s:
        prev = s
        s = _GEN.sub("", s)
    return s


def short(path):
    """last two segments of a path without generics"""
    s = strip_generics(path) or ""
    parts = s.split("::")
    return "::".join(parts[-2:])


class DB:
    def __init__(self, fdir, crates=None):
        self.dir = fdir
        self.fns = {}
        self.adts = {}
        self.impls = []
        self.statics = []
        self.consts = []
        self.crates = {}
        self.meta = json.load(open(os.path.join(fdir, "OK")))
        names = sorted(f[:-6] for f in os.listdir(fdir) if f.endswith(".jsonl"))
        for n in names:
            if crates is not None and n not in crates:
                continue
            self._load(n)
        self._callers = None
        self._by_name = None

    def _load(self, name):
        cnt = defaultdict(int)
        with open(os.path.join(self.dir, name + ".jsonl")) as f:
            for line in f:
                if line.startswith('{"k":"fn"'):
                    cnt["fn"] += 1
                    fn = Fn(line, name)
                    self.fns[fn.id] = fn
                    continue
                r = json.loads(line)
                k = r["k"]
                cnt[k] += 1
                if k == "adt":
                    self.adts[r["id"]] = r
                elif k == "impl":
                    r["crate"] = name
                    self.impls.append(r)
                elif k == "static":
                    r["crate"] = name
                    self.statics.append(r)
                elif k == "const":
                    r["crate"] = name
                    self.consts.append(r)
        self.crates[name] = dict(cnt)

    # ---------------------------------------------------------------- lookup
    def by_name(self, name):
        if self._by_name is None:
            d = defaultdict(list)
            for f in self.fns.values():
                if f.name:
                    d[f.name].append(f)
            self._by_name = d
        return self._by_name.get(name, [])

    def find(self, pattern):
        """functions whose generics-stripped id ends with `pattern`"""
        out = []
        for f in self.fns.values():
            s = strip_generics(f.id)
            if s.endswith(pattern):
                out.append(f)
        return out

    def fn(self, suffix, self_contains=None):
        """the unique function with name == last segment and stripped id ending in suffix"""
        last = suffix.split("::")[-1]
        c = []
        for f in self.by_name(last):
            s = strip_generics(f.id)
            if s.endswith(suffix) or _impl_match(f, suffix):
                if self_contains and self_contains not in (f.rec.get("self") or ""):
                    continue
                c.append(f)
        return c

    def closures_of(self, f):
        ch = getattr(self, "_children", None)
        if ch is None:
            ch = defaultdict(list)
            for g in self.fns.values():
                p = g.rec.get("parent")
                if p:
                    ch[p].append(g)
            self._children = ch
        return ch.get(f.id, [])

    def all_nested(self, f):
        """f plus closures nested (transitively) in it"""
        out = [f]
        prefix = f.id + "::{closure#"
        for g in self.fns.values():
            if g.id.startswith(prefix):
                out.append(g)
        return out

    # ---------------------------------------------------------------- call graph
    def callers(self):
        if self._callers is None:
            d = defaultdict(set)
            for f in self.fns.values():
                for b, t in f.calls(reachable_only=False):
                    c = callee(t)
                    if c:
                        d[strip_generics(c)].add(f.id)
            self._callers = d
        return self._callers


def _impl_match(f, suffix):
    """match `Type::method` against inherent/trait impl methods using the self type"""
    parts = suffix.split("::")
    if len(parts) < 2:
        return False
    ty, m = parts[-2], parts[-1]
    if f.name != m:
        return False
    st = f.rec.get("self")
    if not st:
        return False
    st0 = strip_generics(st).split("<")[0]
    return st0.split("::")[-1] == ty


# ---------------------------------------------------------------------------
# canonical short names for def paths:  `Type::method`, `module::function`
# ---------------------------------------------------------------------------
from functools import lru_cache


def split_path(p):
    segs = []
    depth = 0
    cur = []
    i = 0
    n = len(p)
    while i < n:
        c = p[i]
        if c in "<([":
            depth += 1
        elif c in ">)]":
            if c == ">" and i > 0 and p[i - 1] == "-":
                pass
            else:
                depth -= 1
        if depth == 0 and c == ":" and i + 1 < n and p[i + 1] == ":":
            segs.append("".join(cur))
            cur = []
            i += 2
            continue
        cur.append(c)
        i += 1
    segs.append("".join(cur))
    return segs


def base_ident(ty):
    ty = ty.strip()
    while ty.startswith("&"):
        ty = ty[1:].lstrip()
        if ty.startswith("'"):
            ty = ty.split(" ", 1)[1] if " " in ty else ty
        if ty.startswith("mut "):
            ty = ty[4:]
    if ty.startswith("dyn "):
        ty = ty[4:]
    segs = split_path(ty)
    segs = [s for s in segs if not s.startswith("<") or s.startswith("<impl")]
    last = segs[-1] if segs else ty
    # strip generic args
    k = last.find("<")
    if k > 0:
        last = last[:k]
    return last


def _split_top(s, sep):
    depth = 0
    i = 0
    while i < len(s):
        c = s[i]
        if c in "<([":
            depth += 1
        elif c in ">)]" and not (c == ">" and i > 0 and s[i - 1] == "-"):
            depth -= 1
        if depth == 0 and s.startswith(sep, i):
            return s[:i], s[i + len(sep):]
        i += 1
    return None


@lru_cache(maxsize=None)
def cname(p):
    """canonical `Owner::item` name of a def path (generics removed; impl blocks -> self type)"""
    if not p:
        return ""
    segs = split_path(p)
    out = []
    for s in segs:
        if s.startswith("<impl "):
            inner = s[6:-1]
            sp = _split_top(inner, " for ")
            if sp:
                out.append(("impl", base_ident(sp[1]), base_ident(sp[0])))
            else:
                out.append(("impl", base_ident(inner), None))
        elif s.startswith("<") and _split_top(s[1:-1], " as "):
            a, b = _split_top(s[1:-1], " as ")
            out.append(("impl", base_ident(a), base_ident(b)))
        elif s.startswith("<"):
            # generic args segment, or `<Type>::method`
            if len(segs) > 1 and s is segs[0]:
                out.append(("id", base_ident(s[1:-1])))
            continue
        else:
            k = s.find("<")
            out.append(("id", s[:k] if k > 0 else s))
    if not out:
        return p
    last = out[-1]
    name = last[1]
    # closures: `f::{closure#0}` keep as is
    owner = None
    for o in reversed(out[:-1]):
        if o[1].startswith("{closure"):
            continue
        owner = o
        break
    tail = [o[1] for o in out if o[1].startswith("{closure")]
    if last[1].startswith("{closure"):
        # name = parent fn + closure chain
        ids = [o for o in out if not o[1].startswith("{closure")]
        base = ids[-1][1] if ids else ""
        own = ids[-2][1] if len(ids) > 1 else ""
        return f"{own}::{base}::" + "::".join(tail)
    if owner is None:
        return name
    return f"{owner[1]}::{name}"


@lru_cache(maxsize=None)
def ctrait(p):
    """trait name when the path goes through `<impl Trait for T>` / `<T as Trait>`"""
    for s in split_path(p or ""):
        if s.startswith("<impl "):
            sp = _split_top(s[6:-1], " for ")
            if sp:
                return base_ident(sp[0])
        elif s.startswith("<"):
            sp = _split_top(s[1:-1], " as ")
            if sp:
                return base_ident(sp[1])
    return None


def cn(t):
    """canonical callee name of a call terminator"""
    return cname(callee(t))


# ---------------------------------------------------------------------------
# small shared helpers used by the rules
# ---------------------------------------------------------------------------
def call_blocks(f, names, pred=None):
    """blocks of f (normal CFG) whose terminator calls one of the canonical names"""
    if isinstance(names, str):
        names = (names,)
    out = []
    for b, t in f.calls():
        if cn(t) in names and (pred is None or pred(t)):
            out.append(b)
    return out


def op_local(o):
    """local of a plain copy/move operand (no projection), else None"""
    if o[0] in ("c", "m") and len(o[1]) == 1:
        return o[1][0]
    return None


def op_place(o):
    return o[1] if o[0] in ("c", "m") else None


def roots(f, local, through_ref=True, _seen=None):
    """all root definitions a local's value may come from, following copies, moves and
    (re)borrows through *every* definition.  Returns a list of
      ('call', block, term) | ('arg', n) | ('const', c) | ('place', place) | ('rv', block, rvalue) | ('local', n)"""
    seen = _seen if _seen is not None else set()
    out = []
    st = [local]
    while st:
        cur = st.pop()
        if cur in seen:
            continue
        seen.add(cur)
        ds = [d for d in f.defs().get(cur, []) if not (isinstance(d[2], dict) and d[2].get("k") == "partial")]
        if 1 <= cur <= f.rec["argc"]:
            out.append(("arg", cur))
        if not ds and not (1 <= cur <= f.rec["argc"]):
            out.append(("local", cur))
        for b, i, r in ds:
            if i == "t":
                out.append(("call", b, r))
                continue
            k = r.get("k")
            if k == "use":
                o = r["o"]
                if o[0] == "k":
                    out.append(("const", o[1]))
                elif len(o[1]) == 1:
                    st.append(o[1][0])
                else:
                    out.append(("place", o[1]))
            elif k == "ref" and through_ref:
                pl = r["p"]
                if len(pl) == 1 or (len(pl) == 2 and pl[1] == "*"):
                    st.append(pl[0])
                else:
                    out.append(("place", pl))
            else:
                out.append(("rv", b, r))
    return out


def place_fields(place):
    """field names ('Adt.field') along a place"""
    return [e[2:] for e in place[1:] if isinstance(e, str) and e.startswith("f:")]


def assigns_to_field(f, field_suffix):
    """(block, stmt) for statements assigning a place whose last field projection ends with field_suffix"""
    out = []
    for b in sorted(f.reachable()):
        for s in f.blocks[b]["s"]:
            fl = place_fields(s["p"])
            if fl and fl[-1].endswith(field_suffix):
                out.append((b, s))
    return out


def bool_switch(f, b):
    """for a switch terminator on a bool-like operand: returns (operand_local, false_target, true_target)"""
    t = f.blocks[b]["t"]
    if t["t"] != "switch":
        return None
    l = op_local(t["o"])
    if l is None:
        return None
    if t["vals"] == ["0"] and len(t["tgts"]) == 2:
        return (l, t["tgts"][0], t["tgts"][1])
    if t["vals"] == ["1"] and len(t["tgts"]) == 2:
        return (l, t["tgts"][1], t["tgts"][0])
    return None


def bool_origin(f, local):
    """follow a bool local through copies and `Not`: returns (polarity, root) where root is as in roots()"""
    pol = True
    cur = local
    for _ in range(32):
        d = f.single_def(cur)
        if d is None:
            return pol, ("local", cur)
        b, i, r = d
        if i == "t":
            return pol, ("call", b, r)
        k = r.get("k")
        if k == "use" and r["o"][0] in ("c", "m") and len(r["o"][1]) == 1:
            cur = r["o"][1][0]
            continue
        if k == "un" and r["op"] == "Not":
            l = op_local(r["o"])
            if l is None:
                return pol, ("rv", b, r)
            pol = not pol
            cur = l
            continue
        return pol, ("rv", b, r)
    return pol, ("local", cur)


def taint(f, local):
    """forward value flow of `local` through moves, copies, casts and aggregates.
    Returns (locals, field_stores, returned) where field_stores = [(block, place)]"""
    T = {local}
    stores = []
    changed = True
    while changed:
        changed = False
        for b, blk in enumerate(f.blocks):
            for s in blk["s"]:
                r = s["r"]
                k = r.get("k")
                ops = []
                if k in ("use", "cast", "repeat", "un"):
                    ops = [r["o"]]
                elif k == "agg":
                    ops = r["ops"]
                elif k == "bin":
                    ops = [r["a"], r["b"]]
                elif k == "ref":
                    ops = [["c", r["p"]]]
                hit = False
                for o in ops:
                    if o[0] in ("c", "m") and o[1][0] in T:
                        hit = True
                if not hit:
                    continue
                p = s["p"]
                if len(p) == 1 or all(isinstance(e, str) and (e.startswith("v:") or e.startswith("f:?") or e.startswith("f:.") or e.startswith("f:core::option")) for e in p[1:]):
                    if p[0] not in T:
                        T.add(p[0])
                        changed = True
                else:
                    if (b, tuple(p)) not in [(x, tuple(y)) for x, y in stores]:
                        stores.append((b, p))
                    # writing into a field of a local aggregate also taints that local
                    base = p[0]
                    if "*" not in p[1:] and base not in T:
                        T.add(base)
                        changed = True
    return T, stores, (0 in T)


def arg_hits(t, T):
    """indices of call arguments that are (moves/copies of) tainted locals"""
    return [i for i, a in enumerate(t["args"]) if a[0] in ("c", "m") and a[1][0] in T]


def latest(config="default"):
    """newest fact directory in the cache (debug helper)"""
    import glob
    ds = glob.glob(os.path.join(os.path.dirname(os.path.dirname(os.path.abspath(__file__))), ".cache", "facts", f"*-{config}"))
    return max(ds, key=os.path.getmtime)


PROV_CALLS = ("deref", "deref_mut", "as_str", "as_ref", "as_mut", "borrow", "borrow_mut", "as_slice", "as_bytes",
              "clone", "must_use", "new_display", "new_debug", "into", "from")


def provenance(f, local, limit=64, extra=()):
    """locals a value may derive from: follows copies, (re)borrows, field reads, casts, tuple/aggregate packing and
    pass-through calls (deref/as_str/clone/...) backwards through every definition"""
    seen = set()
    st = [local]
    while st and len(seen) < limit:
        cur = st.pop()
        if cur in seen:
            continue
        seen.add(cur)
        for b, i, r in f.defs().get(cur, []):
            if isinstance(r, dict) and r.get("k") == "partial":
                r = r["r"] if isinstance(r["r"], dict) and "k" in r["r"] else None
                if r is None:
                    continue
            if i == "t":
                if cn(r).split("::")[-1] in PROV_CALLS or cn(r).split("::")[-1] in extra:
                    for a in r["args"][:1]:
                        if a[0] in ("c", "m"):
                            st.append(a[1][0])
                continue
            k = r.get("k")
            if k in ("use", "cast", "un", "repeat"):
                o = r["o"]
                if o[0] in ("c", "m"):
                    st.append(o[1][0])
            elif k in ("ref", "rawptr", "discr"):
                st.append(r["p"][0])
            elif k == "agg":
                for o in r["ops"]:
                    if o[0] in ("c", "m"):
                        st.append(o[1][0])
            elif k == "bin":
                for o in (r["a"], r["b"]):
                    if o[0] in ("c", "m"):
                        st.append(o[1][0])
    return seen
