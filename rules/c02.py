"""C02 — no input makes the engine fail internally (panic / abort / EnginePanic).

Decided clauses (each is a panic some input reaches if the clause breaks):
  R1  the compiler never drops a live Register (Register::drop is `unreachable!`)            [= C03-R1]
  R2  always-on arithmetic panics are guarded: every MIR Assert of kind DivisionByZero / RemainderByZero /
      Overflow(Div|Rem) / OverflowNeg, and every call of a core integer method that panics on a zero divisor
      (wrapping_rem, wrapping_div, rem_euclid, div_euclid, …), in script-reachable modules has a divisor/operand that is a non-zero
      constant, comes from a never-zero producer, or is control-dependent on the excluding comparison
  R3  the result of [[Call]]/[[Construct]] is never treated as infallible (js_expect / expect / unwrap):
      every call can fail with a RuntimeLimitError at the limit boundary
      (implemented, not armed: no boundary configuration reproduced yet)
  R4  the completion record of Context::run / GeneratorContext::resume is consumed, and never asserted to be
      non-throwing (an uncatchable limit error is a Throw record: the assert aborts the process)   [= C08-R4]
  (inline-cache slot index provenance, an out-of-bounds storage[slot.index] panic, is decided under C06-R4)
Not decided: the ≈650 other expect/index sites whose infallibility depends on run-time values.
"""
import re
from facts import (cn, callee, cname, roots, op_local, bool_switch, bool_origin, base_ident, place_fields)
import c03

CRATES = ["boa_engine", "boa_string", "boa_parser", "boa_ast", "boa_interner"]
EXPLANATION = (
    "Static rules over the MIR of boa_engine/boa_string/boa_parser: (R1) typestate on the drop-elaborated MIR of every "
    "function owning a bytecompiler Register; (R2) every always-on arithmetic Assert terminator (division/remainder by "
    "zero, MIN/-1 overflow, negation overflow) classified by the reaching definitions of its divisor/operand and by the "
    "comparisons dominating it; (R3) value flow from [[Call]]/[[Construct]] results into expect-style sinks. Each rule "
    "instance is an assert/drop/call site; the verdict holds for all inputs because the guard is structural. Not "
    "decided: all other panics whose absence depends on run-time values; parser recursion depth.")

# integer methods of core that still panic on a zero divisor (wrapping/overflowing only tame MIN / -1)
STD_DIV_METHODS = {"wrapping_rem": "RemainderByZero", "wrapping_div": "DivisionByZero", "overflowing_rem": "RemainderByZero",
                   "overflowing_div": "DivisionByZero", "rem_euclid": "RemainderByZero", "div_euclid": "DivisionByZero",
                   "wrapping_rem_euclid": "RemainderByZero", "wrapping_div_euclid": "DivisionByZero",
                   "overflowing_rem_euclid": "RemainderByZero", "overflowing_div_euclid": "DivisionByZero",
                   "div_ceil": "DivisionByZero", "next_multiple_of": "RemainderByZero"}
ARITH = ("DivisionByZero", "RemainderByZero", "Overflow(Div)", "Overflow(Rem)", "OverflowNeg")
# modules whose code is reachable from source text (lexer/parser/compiler/VM/builtins); tooling is excluded
NOT_SCRIPT_REACHABLE = (
    "boa_engine::vm::flowgraph",       # graph dump tooling behind the `flowgraph` feature, host-invoked only
)
NONZERO_PRODUCERS = ("mem::align_of", "mem::size_of", "mem::size_of_val", "NonZero::get", "mem::align_of_val")
INT_BITS = {"i8": 8, "u8": 8, "i16": 16, "u16": 16, "i32": 32, "u32": 32, "i64": 64, "u64": 64, "i128": 128,
            "u128": 128, "isize": 64, "usize": 64}

# instances confirmed by reading (key -> reason). Keys are rule keys without the "R2:" prefix.
AUDITED_R2 = {
    "String::string_pad:DivisionByZero:0": ("step 7 returns early when filler.is_empty(); filler_len = filler.len() > 0",
                                            ("JsString::is_empty", "JsStr::is_empty")),
    "String::string_pad:RemainderByZero:0": ("step 7 returns early when filler.is_empty(); filler_len = filler.len() > 0",
                                             ("JsString::is_empty", "JsStr::is_empty")),
    "DateParser::parse_year:OverflowNeg:0": "year = parse_n_ascii_digits::<6>() <= 999 999, cast to i32: never i32::MIN",
    "DateParser::parse_timezone:OverflowNeg:0": "offset_hour parsed from 2 ASCII digits (<= 99) and checked <= 23",
    "DateParser::parse_timezone:OverflowNeg:1": "offset_minute parsed from 2 ASCII digits (<= 99) and checked <= 59",
    "Number::to_precision:OverflowNeg:0": "e_inc = exponent + 1 with exponent the decimal exponent of a finite f64 (|e| < 400)",
    "RoundingIncrement::from_u16:RemainderByZero:0": "divisor is 10u16.checked_pow(..)? : a power of ten, never 0",
    "JsStringBuilder::capacity_from_layout:DivisionByZero:0": "DATA_SIZE = size_of::<D::Element>() of u8/u16 element types",
    "conversions::f64_to_int32:OverflowNeg:1": "`>> -exponent`: on this path -SIGNIFICAND_SIZE < exponent < 0 (the `<=` test returns 0 first)",
}

CALLS = ("JsObject::call", "JsObject::construct", "JsValue::call", "JsFunction::call")
SINKS = ("Result::expect", "Result::unwrap", "Result::unwrap_unchecked", "Result::unwrap_or_default")


def const_nonzero_returning(db):
    """workspace functions whose every return value is a non-zero integer constant"""
    cache = getattr(db, "_cnz", None)
    if cache is not None:
        return cache
    out = set()
    for f in db.fns.values():
        if not f.locals or f.locals[0] not in INT_BITS:
            continue
        rs = roots(f, 0)

        def nz(r, d=0):
            if r[0] == "const":
                return r[1].get("v") not in (None, "0")
            if r[0] == "call":
                return cn(r[2]) in NONZERO_PRODUCERS
            if r[0] == "rv" and r[2].get("k") == "cast" and r[2]["ck"] == "IntToInt" and d < 4:
                fb_, tb_ = INT_BITS.get(r[2]["from"]), INT_BITS.get(r[2]["ty"])
                if fb_ and tb_ and fb_ <= tb_:
                    inner = operand_roots(f, r[2]["o"])
                    return bool(inner) and all(nz(x, d + 1) for x in inner)
            return False
        if rs and all(nz(r) for r in rs):
            out.add(f.id)
    db._cnz = out
    return out


def operand_roots(f, o):
    if o[0] == "k":
        return [("const", o[1])]
    l = op_local(o)
    if l is not None:
        return roots(f, l)
    return [("place", o[1])]


def root_keys(f, o):
    """hashable identities of where an operand's value comes from (for matching a guard to a divisor)"""
    ks = set()
    for r in operand_roots(f, o):
        if r[0] == "const":
            ks.add(("const", r[1].get("v")))
        elif r[0] == "call":
            ks.add(("call", r[1]))
        elif r[0] == "place":
            ks.add(("place", tuple(r[1])))
        elif r[0] in ("arg", "local"):
            ks.add((r[0], r[1]))
        elif r[0] == "rv":
            ks.add(("rv", r[1], repr(r[2])[:80]))
    return ks


def guards_for(f, b, operand):
    """constants c such that block b is only reachable on the `operand != c` side of a dominating comparison
    (also recognises `operand > c`/`<` style range tests as excluding the values outside the range)"""
    want = root_keys(f, operand)
    excluded = set()
    ranges = []
    for sb in f.dominators().get(b, ()):
        if sb == b:
            continue
        t = f.blocks[sb]["t"]
        if t["t"] != "switch":
            continue
        # direct `match x { 0 => .., _ => .. }`
        l = op_local(t["o"])
        if l is None:
            continue
        direct = root_keys(f, t["o"])
        if direct & want and f.locals[l] in INT_BITS:
            for v, tgt in zip(t["vals"], t["tgts"]):
                # b must not be reachable from the `== v` target without passing sb again
                if b not in f.reach_from([tgt], avoid={sb}):
                    excluded.add(v)
            continue
        bs = bool_switch(f, sb)
        if not bs:
            continue
        _, fb, tb = bs
        pol, root = bool_origin(f, l)
        if root[0] != "rv" or root[2].get("k") != "bin":
            continue
        r = root[2]
        op = r["op"]
        if op not in ("Eq", "Ne", "Lt", "Le", "Gt", "Ge"):
            continue
        a_k, b_k = root_keys(f, r["a"]), root_keys(f, r["b"])
        cst = None
        if a_k & want and r["b"][0] == "k" or (a_k & want and all(x[0] == "const" for x in b_k) and b_k):
            cst = [x[1] for x in b_k if x[0] == "const"]
        elif b_k & want and all(x[0] == "const" for x in a_k) and a_k:
            cst = [x[1] for x in a_k if x[0] == "const"]
            op = {"Lt": "Gt", "Le": "Ge", "Gt": "Lt", "Ge": "Le"}.get(op, op)
        if not cst or cst[0] is None:
            continue
        c = cst[0]
        in_true = b in f.reach_from([tb], avoid={sb})
        in_false = b in f.reach_from([fb], avoid={sb})
        if in_true and in_false:
            continue
        side = in_true if pol else in_false   # is b on the side where the comparison holds?
        if op == "Eq" and not side:
            excluded.add(c)
        elif op == "Ne" and side:
            excluded.add(c)
        else:
            ranges.append((op, c, side))
    return excluded, ranges


def int_type_bits(ty):
    return INT_BITS.get(ty)


def r2(db, rep):
    rep.rule("R2", "every always-on arithmetic Assert (÷0, %0, MIN/-1, -MIN) in script-reachable code has a constant / "
                   "never-zero divisor or is dominated by the comparison that excludes the panicking value")
    cnz = const_nonzero_returning(db)
    n = 0
    ords = {}
    classes = {}
    for f in db.fns.values():
        if f.krate not in ("boa_engine", "boa_string", "boa_parser", "boa_ast", "boa_interner"):
            continue
        if f.id.startswith(NOT_SCRIPT_REACHABLE):
            continue
        has_assert = f.mentions('"t":"assert"') and (f.mentions("ByZero") or f.mentions("Overflow(Div)") or
                                                     f.mentions("Overflow(Rem)") or f.mentions("OverflowNeg"))
        has_std_div = any(f.mentions(m) for m in STD_DIV_METHODS)
        if not has_assert and not has_std_div:
            continue
        in_const = f.kind in ("static", "constant", "associated constant") or f.kind.startswith(("const", "static", "assoc"))
        for b in sorted(f.reachable()):
            t = f.blocks[b]["t"]
            std_div = None
            if t["t"] == "call" and has_std_div:
                c_ = callee(t) or ""
                m_ = c_.split("::")[-1]
                if c_.startswith("core::num::") and m_ in STD_DIV_METHODS and len(t["args"]) >= 2 and "f32" not in c_ and "f64" not in c_:
                    std_div = m_
            if std_div is None and (t["t"] != "assert" or t["kind"] not in ARITH):
                continue
            name = cname(f.id)
            kind = STD_DIV_METHODS[std_div] if std_div else t["kind"]
            k = (name, std_div or kind)
            ords[k] = ords.get(k, -1) + 1
            key = f"{name}:{(std_div or kind).replace('(', '-').replace(')', '')}:{ords[k]}"
            n += 1
            why = None
            # the value that must be excluded
            if std_div:
                # integer methods of core that panic on a zero divisor although they never overflow
                dv = t["args"][1]
                bad = {"0"}
            elif kind in ("DivisionByZero", "RemainderByZero"):
                l = op_local(t["cond"])
                d = f.single_def(l) if l is not None else None
                dv = d[2]["a"] if d and d[1] != "t" and d[2].get("k") == "bin" and d[2]["op"] == "Eq" else None
                bad = {"0"}
            elif kind.startswith("Overflow("):
                dv = t["ops"][1]
                bad = {"-1"}
            else:
                dv = t["ops"][0]
                bad = {"MIN"}
            if in_const:
                why = "evaluated at compile time (const/static initialiser): a panic is a build error"
            elif dv is None:
                why = None
            else:
                rs = operand_roots(f, dv)
                ty = f.locals[op_local(dv)] if op_local(dv) is not None else (dv[1].get("ty") if dv[0] == "k" else None)
                if kind == "OverflowNeg":
                    # widening casts cannot produce MIN of the wider type
                    ok = bool(rs)
                    for r in rs:
                        if r[0] == "rv" and r[2].get("k") == "cast" and r[2]["ck"] == "IntToInt":
                            fb_, tb_ = int_type_bits(r[2]["from"]), int_type_bits(r[2]["ty"])
                            if not (fb_ and tb_ and fb_ < tb_):
                                ok = False
                        elif r[0] == "call" and cn(r[2]).endswith("::from") and r[2].get("g"):
                            g = r[2]["g"].split(",")[0].strip()
                            src = f.locals[op_local(r[2]["args"][0])] if r[2]["args"] and op_local(r[2]["args"][0]) is not None else None
                            if not (int_type_bits(src) and int_type_bits(ty or "") and int_type_bits(src) < int_type_bits(ty or "")):
                                ok = False
                        elif r[0] == "const" and r[1].get("v") is not None:
                            bits = int_type_bits(r[1].get("ty", ""))
                            if bits and int(r[1]["v"]) == -(1 << (bits - 1)):
                                ok = False
                        else:
                            ok = False
                    if ok:
                        why = "operand is a widening conversion / non-MIN constant: cannot be the minimum of its type"
                else:
                    ok = bool(rs)
                    # look through integer casts of a never-zero value (`size_of::<T>() as u64`)
                    rs2 = []
                    for r in rs:
                        seen_c = 0
                        while r[0] == "rv" and r[2].get("k") == "cast" and r[2]["ck"] == "IntToInt" and seen_c < 4:
                            fb_, tb_ = int_type_bits(r[2]["from"]), int_type_bits(r[2]["ty"])
                            if not (fb_ and tb_ and fb_ <= tb_):
                                break
                            inner = operand_roots(f, r[2]["o"])
                            if len(inner) != 1:
                                break
                            r = inner[0]
                            seen_c += 1
                        rs2.append(r)
                    rs = rs2
                    for r in rs:
                        if r[0] == "const":
                            v = r[1].get("v")
                            if v is None and "def" in r[1]:
                                v = None
                            if v is None or v in bad:
                                ok = False
                        elif r[0] == "call":
                            c = cn(r[2])
                            if c in NONZERO_PRODUCERS or callee(r[2]) in cnz:
                                continue
                            if c.endswith("::pow") and r[2]["args"] and r[2]["args"][0][0] == "k" and \
                                    r[2]["args"][0][1].get("v") not in (None, "0", "1", "-1"):
                                continue   # |base| >= 2: a power is never 0 nor -1
                            if c.endswith("::abs") and "-1" in bad:
                                continue
                            ok = False
                        else:
                            ok = False
                    if ok:
                        why = "divisor is a constant / never-zero producer"
                if why is None and kind != "OverflowNeg" and ty and ty.startswith("u") and "-1" in bad:
                    why = "unsigned"
                if why is None:
                    excluded, ranges = guards_for(f, b, dv)
                    need = "0" if "0" in bad else "-1" if "-1" in bad else None
                    if need is not None and need in excluded:
                        why = f"dominated by the comparison excluding {need}"
                    elif need == "0" and any((op in ("Gt",) and c == "0" and side) or (op == "Ge" and c == "1" and side) or
                                             (op == "Le" and c == "0" and not side) or (op == "Lt" and c == "1" and not side)
                                             for op, c, side in ranges):
                        why = "dominated by a positivity test"
                    elif need == "-1" and any((op in ("Gt", "Ge") and c in ("0", "1") and side) or
                                              (op in ("Lt", "Le") and c in ("0", "1") and not side) for op, c, side in ranges):
                        why = "dominated by a positivity test"
                    elif need is None and any((op in ("Gt", "Ge") and side) or (op in ("Lt", "Le") and not side)
                                              for op, c, side in ranges):
                        why = "dominated by a lower-bound test (operand cannot be MIN)"
            if why is None and key in AUDITED_R2:
                a = AUDITED_R2[key]
                if isinstance(a, tuple):
                    # the audit relies on a guard call: it must still dominate the assert
                    doms = f.dominators().get(b, ())
                    if any(f.blocks[x]["t"]["t"] == "call" and cn(f.blocks[x]["t"]) in a[1] for x in doms):
                        why = "audited: " + a[0]
                else:
                    why = "audited: " + a
            classes[why.split(":")[0] if why else "UNGUARDED"] = classes.get(why.split(":")[0] if why else "UNGUARDED", 0) + 1
            what = {"DivisionByZero": "division by zero", "RemainderByZero": "remainder by zero",
                    "Overflow(Div)": "MIN / -1 overflow", "Overflow(Rem)": "MIN % -1 overflow",
                    "OverflowNeg": "negation of MIN"}[kind]
            if std_div:
                kind = f"{std_div}() [{kind}]"
            rep.ob("R2", key, why is not None,
                   f"{name}: `{kind}` assert at {f.loc(b)} is not guarded — {what} panics (also in release builds) for "
                   f"some operand values", loc=f.loc(b))
    rep.analysed["R2.discharge classes"] = classes
    rep.floor("R2", "always-on arithmetic asserts", n, 90)


def r3(db, rep):
    rep.rule("R3", "a [[Call]]/[[Construct]] result never flows into js_expect/expect/unwrap: every call re-checks the "
                   "runtime limits and can fail with an uncatchable RuntimeLimitError")
    n = 0
    ords = {}
    for f in db.fns.values():
        if f.krate != "boa_engine":
            continue
        for b, t in f.calls():
            c = cn(t)
            if not (c.endswith("::js_expect") or c in SINKS) or not t["args"]:
                continue
            l = op_local(t["args"][0])
            rs = roots(f, l) if l is not None else []
            hit = [cn(r[2]) for r in rs if r[0] == "call" and cn(r[2]) in CALLS]
            if not hit:
                continue
            n += 1
            name = cname(f.id)
            ords[name] = ords.get(name, -1) + 1
            rep.ob("R3", f"{name}:infallible-call:{ords[name]}", False,
                   f"{name}: the result of {hit[0]} is unwrapped with {c.split('::')[-1]} at {f.loc(b)} — at the recursion / "
                   f"stack-size limit boundary the callee's check_runtime_limits fails and this becomes a panic / "
                   f"EnginePanic instead of a RuntimeLimitError", loc=f.loc(b))
    rep.analysed["R3.sites"] = n


def run(db, rep, tier):
    c03.r1(db, rep)
    r2(db, rep)
    # R3 ([[Call]] results treated as infallible) is implemented but not armed; see DESIGN.md
    # R4: completion records of run/resume are never asserted to be non-throwing (shared with C08-R4)
    import c08
    c08.r4(db, rep)
    # R5 = C04-R9: the sibling overrides of contains()'s visitor agree (a wrong Contains answer lets an invalid `super`
    # through the early errors and drops a needed function environment: EnginePanic at run time)
    import c04
    c04.r9(db, rep)
    rep.assumptions += [
        "R2 covers the always-on arithmetic panics only; debug-only overflow asserts (Add/Sub/Mul) are not decided",
        "asserts in const/static initialisers are compile-time (CTFE) and cannot fire at run time",
    ]
