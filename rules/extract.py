"""Fact extraction: builds the driver if needed, runs it over /repo's current
working tree and caches the fact files under /verif/.cache/facts/<tree-hash>."""
import fcntl
import glob
import hashlib
import json
import os
import shutil
import subprocess
import sys
import time

VERIF = os.path.dirname(os.path.dirname(os.path.abspath(__file__)))
REPO = os.environ.get("BOA_REPO", "/repo")
CACHE = os.path.join(VERIF, ".cache")
DRIVER_DIR = os.path.join(VERIF, "driver")
DRIVER = os.path.join(DRIVER_DIR, "target", "debug", "boa-facts")

# configurations: name -> (cargo package args, extra cargo args)
PKGS = ["boa_engine", "boa_gc", "boa_ast", "boa_parser", "boa_string", "boa_interner",
        "boa_runtime", "boa_cli", "boa_wintertc", "small_btree", "tag_ptr"]
CONFIGS = {
    "default": (PKGS, []),
    "enum": (["boa_engine"], ["--features", "boa_engine/jsvalue-enum"]),
    # boa_engine with its own default features only (no annex-b / intl / experimental / trace): the code under the
    # negative cfgs that the cli feature set hides
    "engine": (["boa_engine", "boa_gc", "boa_ast", "boa_parser", "boa_string", "boa_interner"], []),
}
# fail-closed floors: bodies per crate (counted on the pinned tree: engine 15255,
# gc 960, ast 4343, parser 1090, string 465)
FLOORS = {
    "default": {"boa_engine": 12000, "boa_gc": 800, "boa_ast": 3500, "boa_parser": 900,
                "boa_string": 380, "boa_interner": 120, "boa_runtime": 600},
    "enum": {"boa_engine": 12000},
    "engine": {"boa_engine": 9000, "boa_gc": 700, "boa_ast": 2200, "boa_parser": 800, "boa_string": 350},
}


def sh(cmd, **kw):
    return subprocess.run(cmd, shell=isinstance(cmd, str), **kw)


def sysroot():
    return subprocess.check_output(["rustc", "+nightly", "--print", "sysroot"], text=True).strip()


def tree_hash():
    """sha256 over every tracked and untracked (non-ignored) file of /repo."""
    out = subprocess.check_output(
        ["git", "-C", REPO, "ls-files", "-co", "--exclude-standard", "-z"])
    h = hashlib.sha256()
    for name in sorted(out.split(b"\0")):
        if not name:
            continue
        p = os.path.join(REPO.encode(), name)
        h.update(name + b"\0")
        try:
            with open(p, "rb") as f:
                h.update(hashlib.sha256(f.read()).digest())
        except (FileNotFoundError, IsADirectoryError):
            h.update(b"<gone>")
    # the driver is part of what produces the facts
    for f in sorted(glob.glob(os.path.join(DRIVER_DIR, "src", "*.rs"))):
        with open(f, "rb") as fh:
            h.update(hashlib.sha256(fh.read()).digest())
    return h.hexdigest()[:24]


def build_driver(log=sys.stderr):
    env = dict(os.environ, CARGO_NET_OFFLINE="true")
    r = sh(["cargo", "+nightly", "build", "--offline"], cwd=DRIVER_DIR, env=env,
           stdout=subprocess.PIPE, stderr=subprocess.STDOUT, text=True)
    if r.returncode != 0 or not os.path.exists(DRIVER):
        log.write(r.stdout)
        raise SystemExit("driver build failed")


def driver_stale():
    if not os.path.exists(DRIVER):
        return True
    m = os.path.getmtime(DRIVER)
    return any(os.path.getmtime(f) > m for f in glob.glob(os.path.join(DRIVER_DIR, "src", "*.rs")))


def extract(config="default", log=sys.stderr):
    """Returns the directory holding the fact files for the current tree."""
    os.makedirs(CACHE, exist_ok=True)
    lock = open(os.path.join(CACHE, "lock"), "w")
    fcntl.flock(lock, fcntl.LOCK_EX)
    try:
        if driver_stale():
            build_driver(log)
        th = tree_hash()
        fdir = os.path.join(CACHE, "facts", f"{th}-{config}")
        if os.path.exists(os.path.join(fdir, "OK")):
            return fdir
        tmp = fdir + ".tmp"
        shutil.rmtree(tmp, ignore_errors=True)
        shutil.rmtree(fdir, ignore_errors=True)
        os.makedirs(tmp)
        target = os.path.join(CACHE, "target-" + config)
        # cargo's freshness cache would skip the wrapper: drop members' fingerprints
        for d in glob.glob(os.path.join(target, "debug", ".fingerprint", "*")):
            b = os.path.basename(d)
            if b.startswith(("boa", "small_btree-", "tag_ptr-")):
                shutil.rmtree(d, ignore_errors=True)
        pkgs, extra = CONFIGS[config]
        env = dict(os.environ)
        env.update({
            "BOA_FACTS_DIR": tmp,
            "RUSTFLAGS": "-Zmir-opt-level=0 -Awarnings",
            "RUSTC_WORKSPACE_WRAPPER": DRIVER,
            "CARGO_TARGET_DIR": target,
            "CARGO_NET_OFFLINE": "true",
            "LD_LIBRARY_PATH": sysroot() + "/lib:" + os.environ.get("LD_LIBRARY_PATH", ""),
        })
        env.pop("RUSTC_WRAPPER", None)
        cmd = ["cargo", "+nightly", "check", "--offline"]
        for p in pkgs:
            cmd += ["-p", p]
        cmd += extra
        t0 = time.time()
        r = sh(cmd, cwd=REPO, env=env, stdout=subprocess.PIPE, stderr=subprocess.STDOUT, text=True)
        if r.returncode != 0:
            log.write(r.stdout[-6000:])
            raise SystemExit("fact extraction failed: /repo does not build under cargo +nightly check")
        # one file per crate: rename <crate>-<pid>.jsonl -> <crate>.jsonl, check floors
        counts = {}
        for f in glob.glob(os.path.join(tmp, "*.jsonl")):
            name = os.path.basename(f).rsplit("-", 1)[0]
            dst = os.path.join(tmp, name + ".jsonl")
            os.rename(f, dst)
            with open(dst, "rb") as fh:
                fh.seek(max(0, os.path.getsize(dst) - 400))
                tail = fh.read().decode().strip().splitlines()[-1]
            end = json.loads(tail)
            assert end["k"] == "end", "truncated fact file " + dst
            counts[name] = end["fns"]
        for c, floor in FLOORS[config].items():
            if counts.get(c, 0) < floor:
                raise SystemExit(f"fact extraction incomplete: {c} has {counts.get(c, 0)} bodies < floor {floor}")
        with open(os.path.join(tmp, "OK"), "w") as f:
            json.dump({"tree": th, "config": config, "bodies": counts,
                       "extract_s": round(time.time() - t0, 1)}, f)
        os.rename(tmp, fdir)
        # keep the cache bounded: newest 4 fact dirs
        ds = sorted(glob.glob(os.path.join(CACHE, "facts", "*")), key=os.path.getmtime)
        for d in ds[:-4]:
            shutil.rmtree(d, ignore_errors=True)
        return fdir
    finally:
        fcntl.flock(lock, fcntl.LOCK_UN)
        lock.close()


if __name__ == "__main__":
    cfgs = sys.argv[1:] or ["default"]
    for c in cfgs:
        print(extract(c))
