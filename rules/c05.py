"""C05 — the AST optimizer preserves semantics.

Decided clauses (the guards the passes rest on):
  R1  duplication needs purity: an Expression::clone whose result is put into a replacement next to the original
      operand is dominated by a predicate that admits only literals
  R2  constant folding rewrites only under a Literal test of the operand it evaluates/discards: every
      Replace/Modified exit of constant_fold_{unary,binary}_expr is dominated by the Literal arm of a
      discriminant test on an operand expression
  R3  folding evaluates only literals: every JsValue operator call in constant_folding takes operands produced by
      literal_to_js_value, and an Err from the operator leads to Keep
  R4  dead-code elimination keeps hoisted declarations and loop initialisers: every Replace exit of
      try_eliminate_{if,while,for} is preceded by contains_hoisted_declarations(discarded)==false (or by the absence
      of the discarded branch), try_eliminate_for additionally by init().is_none(); the visitor that looks for
      hoisted declarations overrides var + all four function-declaration forms
  R7  an operand moved out of the node (mem::replace on lhs_mut / rhs_mut / target_mut) becomes the replacement of the
      whole expression only if that operand was tested to be a Literal, or after passing through a function that rebuilds
      an expression from it (value_of): a bare Identifier / PropertyAccess would turn `(true && o.f)()`, `typeof (true && x)`
      and `delete (true && o.p)` from a value into a reference
  R6  the optimizer never decides anything by a NaN-blind float comparison: an ==, !=, <, … on f64 operands in
      boa_engine::optimizer is accompanied by an is_nan() test of the same value (truthiness of a folded NaN literal must
      come from the engine's ToBoolean, not from `v != 0.0`)
  R5  the folder evaluates each operator with the routine the VM uses for it: per operator variant, the JsValue /
      Number / JsBigInt routines called on the folder's match arm equal those of the opcode handler the bytecompiler
      emits for that variant (tables extracted from constant_fold_*_expr, compile_unary/compile_binary and
      <Opcode>::operation); the few decomposition differences are audited pairs pinned on both sides
"""
from facts import (cn, callee, cname, roots, op_local, taint, arg_hits, place_fields, bool_switch, bool_origin)

CRATES = ["boa_engine", "boa_ast"]
EXPLANATION = (
    "Dominance rules over the MIR of boa_engine::optimizer::pass::{constant_folding, strength_reduction, "
    "dead_code_elimination}: every rewriting exit (PassAction::Replace/Modified) and every operand duplication is "
    "checked to be control-dependent on the guard that makes the rewrite sound (literal-only operand, no hoisted "
    "declaration discarded, no initializer dropped). Variant indices are read from boa_ast's Expression enum. Holds "
    "for all programs because the passes are the only rewriters. Not decided: that folded values equal run-time values.")

EXPR = "boa_ast::expression::Expression"
PASS = "boa_engine::optimizer::pass"
HOISTED_FORMS = ["visit_var_declaration", "visit_function_declaration", "visit_generator_declaration",
                 "visit_async_function_declaration", "visit_async_generator_declaration"]
JS_OPS = {"add", "sub", "mul", "div", "pow", "rem", "bitand", "bitor", "bitxor", "shl", "shr", "ushr", "neg",
          "equals", "strict_equals", "gt", "ge", "lt", "le", "not", "to_number", "to_numeric", "js_type_of"}


def variant_index(db, adt, name):
    a = db.adts.get(adt)
    if not a:
        return None
    for i, v in enumerate(a["variants"]):
        if v["name"] == name:
            return str(i)
    return None


def expr_discr_switches(f):
    """(switch block, {value: target}, otherwise) for switches on the discriminant of an Expression place"""
    out = []
    for b in sorted(f.reachable()):
        t = f.blocks[b]["t"]
        if t["t"] != "switch":
            continue
        l = op_local(t["o"])
        d = f.single_def(l) if l is not None else None
        if not d or d[1] == "t" or d[2].get("k") != "discr":
            continue
        base = d[2]["p"][0]
        ty = f.locals[base]
        if not ty.replace("&", "").replace("mut ", "").strip().endswith("expression::Expression"):
            continue
        out.append((b, dict(zip(t["vals"], t["tgts"])), t["tgts"][-1], d[2]["p"]))
    return out


def true_discriminants(db, f):
    """for a predicate fn(&Expression) -> bool: the set of Expression discriminants for which it can return true,
    or None when an unbounded set can"""
    lit = set()
    sw = [s for s in expr_discr_switches(f)]
    if not sw:
        return None
    b, cases, other, _ = sw[0]

    def can_true(start):
        for x in f.reach_from([start]):
            for s in f.blocks[x]["s"]:
                if s["p"] == [0] and s["r"].get("k") == "use" and s["r"]["o"][0] == "k" and s["r"]["o"][1].get("v") == "1":
                    return True
        return False
    if other not in cases.values() and can_true(other) and not all(can_true(t) for t in cases.values()):
        return None
    if other not in cases.values() and can_true(other):
        return None
    return {v for v, t in cases.items() if can_true(t)}


def r1(db, rep, lit):
    rep.rule("R1", "an operand is duplicated (Expression::clone placed beside the original) only under a predicate that "
                   "admits literals alone — anything else (identifier, call, member access) can be observed twice")
    n = 0
    for f in db.fns.values():
        if not f.id.startswith(PASS + "::strength_reduction") and not f.id.startswith(PASS + "::constant_folding"):
            continue
        name = cname(f.id)
        k = -1
        for b, t in f.calls():
            if not (cn(t) == "Expression::clone" or (callee(t) or "").endswith("Expression as core::clone::Clone>::clone")):
                continue
            k += 1
            n += 1
            ok = False
            admitted = None
            for sb in f.dominators().get(b, ()):
                bs = bool_switch(f, sb)
                if not bs:
                    continue
                l, fb, tb = bs
                pol, root = bool_origin(f, l)
                if root[0] != "call":
                    continue
                p = db.fns.get(callee(root[2]))
                if p is None or p.locals[0] != "bool":
                    continue
                good = tb if pol else fb
                if b not in f.reach_from([good], avoid={sb}):
                    continue
                td = true_discriminants(db, p)
                if td is not None:
                    admitted = td
                    if td <= {lit}:
                        ok = True
            names = None
            if admitted is not None:
                a = db.adts[EXPR]["variants"]
                names = sorted(a[int(v)]["name"] for v in admitted)
            rep.ob("R1", f"{name}:clone:{k}", ok,
                   f"{name}: duplicates an operand expression at {f.loc(b)} under a purity test that admits "
                   f"{names if names is not None else 'an unbounded set of expression kinds'} — evaluating it twice calls "
                   f"valueOf/getters twice (`o ** 2` -> `o * o`) and changes BigInt semantics", loc=f.loc(b))
    rep.floor("R1", "operand duplications in the passes", n, 1)


def r2(db, rep, lit):
    rep.rule("R2", "every Replace/Modified exit of constant_fold_unary_expr / constant_fold_binary_expr is dominated by the "
                   "Literal arm of a discriminant test on an operand")
    n = 0
    for fname in ("ConstantFolding::constant_fold_unary_expr", "ConstantFolding::constant_fold_binary_expr"):
        fs = [f for f in db.fns.values() if cname(f.id) == fname]
        if not rep.anchor("R2", fname, fs):
            continue
        f = fs[0]
        sws = expr_discr_switches(f)
        k = -1
        for b in sorted(f.reachable()):
            for s in f.blocks[b]["s"]:
                r = s["r"]
                if s["p"] == [0] and r.get("k") == "agg" and r.get("adt", "").endswith("PassAction") and \
                        r.get("variant") in ("Replace", "Modified"):
                    k += 1
                    n += 1
                    ok = False
                    for sb, cases, other, _ in sws:
                        if lit in cases and f.dominates(sb, b):
                            lt = cases[lit]
                            others = [t for v, t in cases.items() if v != lit] + ([other] if other != lt else [])
                            if b in f.reach_from([lt], avoid={sb}) and b not in f.reach_from(others, avoid={sb}):
                                ok = True
                    rep.ob("R2", f"{fname}:rewrite-exit:{k}", ok,
                           f"{fname}: rewrites the expression ({r.get('variant')}) at {f.loc(b)} on a path where no operand was "
                           f"tested to be a Literal — a non-literal operand would be evaluated at compile time or discarded",
                           loc=f.loc(b))
    rep.floor("R2", "rewrite exits of constant folding", n, 6)


def r3(db, rep):
    rep.rule("R3", "in constant_folding every JsValue operator is applied to values produced by literal_to_js_value, and an "
                   "Err result leads to PassAction::Keep")
    n = 0
    for f in db.fns.values():
        if not f.id.startswith(PASS + "::constant_folding"):
            continue
        name = cname(f.id)
        k = -1
        for b, t in f.calls():
            c = cn(t)
            if not c.startswith("JsValue::") or c.split("::")[1] not in JS_OPS:
                continue
            k += 1
            n += 1
            bad = []
            for a in t["args"]:
                l = op_local(a)
                if l is None:
                    continue
                ty = f.locals[l]
                if "JsValue" not in ty:
                    continue
                for r in roots(f, l):
                    if not (r[0] == "call" and cn(r[2]).endswith("literal_to_js_value")):
                        bad.append(cn(r[2]) if r[0] == "call" else str(r[:2]))
            rep.ob("R3", f"{name}:{c}:{k}", not bad,
                   f"{name}: {c} at {f.loc(b)} is applied to a value not produced by literal_to_js_value ({bad}) — the "
                   f"optimizer would evaluate a non-literal at compile time", loc=f.loc(b))
    rep.floor("R3", "operator evaluations in constant folding", n, 15)


def false_edge_blocks(f, callname):
    """target blocks taken when a call to `callname` returned false"""
    out = set()
    for sb in f.reachable():
        bs = bool_switch(f, sb)
        if not bs:
            continue
        l, fb, tb = bs
        pol, root = bool_origin(f, l)
        if root[0] == "call" and cn(root[2]).endswith(callname):
            out.add(fb if pol else tb)
    return out


def r4(db, rep):
    rep.rule("R4", "DCE: every Replace exit of try_eliminate_{if,while,for} is reached only after "
                   "contains_hoisted_declarations(..) returned false for the discarded statement (or there is no discarded "
                   "branch); try_eliminate_for also only when init() is None")
    n = 0
    for fname in ("try_eliminate_if", "try_eliminate_while", "try_eliminate_for"):
        fs = [f for f in db.fns.values() if cname(f.id) == "DeadCodeElimination::" + fname]
        if not rep.anchor("R4", "DeadCodeElimination::" + fname, fs):
            continue
        f = fs[0]
        guard = false_edge_blocks(f, "contains_hoisted_declarations")
        # None edge of else_node()
        none_edges = set()
        for b, t in f.calls():
            if cn(t) == "If::else_node" and len(t["dest"]) == 1:
                T, _, _ = taint(f, t["dest"][0])
                for sb in f.reachable():
                    st = f.blocks[sb]["t"]
                    if st["t"] != "switch":
                        continue
                    l = op_local(st["o"])
                    d = f.single_def(l) if l is not None else None
                    if d and d[1] != "t" and d[2].get("k") == "discr" and d[2]["p"][0] in T and len(d[2]["p"]) == 1:
                        none_edges.add(st["tgts"][st["vals"].index("0")] if "0" in st["vals"] else st["tgts"][-1])
        init_none = false_edge_blocks(f, "Option::is_some") | false_edge_blocks(f, "is_some")
        k = -1
        for b in sorted(f.reachable()):
            for s in f.blocks[b]["s"]:
                r = s["r"]
                if s["p"] == [0] and r.get("k") == "agg" and r.get("adt", "").endswith("PassAction") and r.get("variant") == "Replace":
                    k += 1
                    n += 1
                    path = f.path_avoiding([0], guard | none_edges, lambda x, b=b: x == b)
                    rep.ob("R4", f"DeadCodeElimination::{fname}:replace-exit:{k}", path is None and bool(guard),
                           f"{fname}: replaces the statement at {f.loc(b)} on a path that never established "
                           f"contains_hoisted_declarations(discarded) == false — a `var`/function declaration in the removed "
                           f"branch stops being hoisted", detail=[f"block path: {path}"], loc=f.loc(b))
                    if fname == "try_eliminate_for":
                        path = f.path_avoiding([0], init_none, lambda x, b=b: x == b)
                        rep.ob("R4", f"DeadCodeElimination::{fname}:replace-exit:{k}:init", path is None and bool(init_none),
                               f"{fname}: removes the whole `for` at {f.loc(b)} although its initializer may exist — the "
                               f"initializer's side effects are dropped", loc=f.loc(b))
    rep.floor("R4", "Replace exits of dead-code elimination", n, 5)
    # the visitor
    imp = [i for i in db.impls if i["trait"] == "boa_ast::visitor::Visitor" and
           i["self"].endswith("ContainsHoistedDeclarationsVisitor")]
    if rep.anchor("R4", "impl Visitor for ContainsHoistedDeclarationsVisitor", imp):
        items = {x.split("::")[-1] for x in imp[0]["items"]}
        for m in HOISTED_FORMS:
            ok = m in items
            if ok:
                fid = [x for x in imp[0]["items"] if x.endswith("::" + m)][0]
                g = db.fns.get(fid)
                sets_found = False
                if g:
                    for b in g.reachable():
                        for s in g.blocks[b]["s"]:
                            if any(x.endswith(".found") for x in place_fields(s["p"])) and s["r"].get("k") == "use" and \
                                    s["r"]["o"][0] == "k" and s["r"]["o"][1].get("v") == "1":
                                sets_found = True
                ok = sets_found
            rep.ob("R4", f"ContainsHoistedDeclarationsVisitor:{m}", ok,
                   f"the hoisted-declaration visitor does not flag `{m[6:]}` nodes any more — DCE would drop a hoisted "
                   f"declaration of that form", loc=imp[0]["span"])
    # every function-declaration form of the Declaration enum is covered
    decl = db.adts.get("boa_ast::declaration::Declaration")
    if rep.anchor("R4", "enum boa_ast::declaration::Declaration", decl):
        fnforms = [v["name"] for v in decl["variants"] if v["name"].endswith("FunctionDeclaration") or
                   v["name"].endswith("GeneratorDeclaration")]
        want = {"FunctionDeclaration": "visit_function_declaration", "GeneratorDeclaration": "visit_generator_declaration",
                "AsyncFunctionDeclaration": "visit_async_function_declaration",
                "AsyncGeneratorDeclaration": "visit_async_generator_declaration"}
        for v in fnforms:
            rep.ob("R4", f"Declaration::{v}:covered", v in want,
                   f"boa_ast::Declaration has a function-like variant `{v}` the hoisted-declaration visitor does not know",
                   loc=decl["span"])


def r4b(db, rep):
    rep.rule("R4b", "the hoisted-declaration visitor knows every place a `var` can be declared: for each enum variant of boa_ast "
                    "named Var / VarStatement, the visitor overrides the visit method of the payload type (VarDeclaration) or of "
                    "the enum itself (`for (var x in o)` declares through IterableLoopInitializer::Var(Variable))")
    imp = [i for i in db.impls if i["trait"] == "boa_ast::visitor::Visitor" and
           i["self"].endswith("ContainsHoistedDeclarationsVisitor")]
    if not rep.anchor("R4b", "impl Visitor for ContainsHoistedDeclarationsVisitor", imp):
        return
    arg_types = set()
    for it in imp[0]["items"]:
        g = db.fns.get(it)
        if g is not None and g.rec["argc"] >= 2:
            arg_types.add(g.locals[2].replace("&'ast ", "").replace("&", "").strip())
    n = 0
    for k, a in db.adts.items():
        if not k.startswith("boa_ast::") or a["kind"] != "enum":
            continue
        for v in a["variants"]:
            if v["name"] not in ("Var", "VarStatement") or not v["fields"]:
                continue
            n += 1
            P = v["fields"][0]["ty"]
            rep.ob("R4b", f"{k.split('::')[-1]}::{v['name']}:seen-by-hoisting-visitor", P in arg_types or k in arg_types,
                   f"a `var` declared through {k.split('::')[-1]}::{v['name']}({P.split('::')[-1]}) is invisible to "
                   f"ContainsHoistedDeclarationsVisitor: `if (false) {{ for (var x in o) {{}} }}` is removed with its hoisted "
                   f"declaration, and a later `typeof x` throws under the optimizer", loc=a["span"])
    rep.floor("R4b", "places where a var can be declared", n, 3)


ROUTINE_FAMILIES = ("boa_engine::value::", "boa_engine::builtins::number::Number", "boa_engine::bigint::JsBigInt")
NOT_A_ROUTINE = {"new", "from", "into", "clone", "variant", "undefined", "null", "drop", "nan", "is_undefined"}
OP_ENUMS = ["UnaryOp", "ArithmeticOp", "BitwiseOp", "RelationalOp"]
# (operator, folder routines, VM routines) that differ by decomposition only; each pins both sides. Audited by reading.
AUDITED_EQUIV = {
    ("UnaryOp::Minus", ("JsValue::neg",), ("JsBigInt::neg", "JsValue::to_numeric")):
        "JsValue::neg on a literal = ToNumeric then negate (string → -StringToNumber, bigint → JsBigInt::neg); no objects among literals",
    ("UnaryOp::Not", ("JsValue::not",), ("JsValue::to_boolean",)):
        "JsValue::not is `!self.to_boolean()`",
    ("RelationalOp::NotEqual", ("JsValue::equals",), ("JsValue::not_equals",)):
        "folder negates equals(); JsValue::not_equals is `!equals`",
}
# operators the folder leaves to the VM (or folds without evaluating the operand): no routine on the folder side
NOT_FOLDED = {"UnaryOp::Delete": "folds to `true` only for literals (no reference)", "UnaryOp::Void": "folds to undefined",
              "RelationalOp::In": "kept", "RelationalOp::InstanceOf": "kept"}


def _routines(f, blocks):
    out = set()
    for b in blocks:
        t = f.blocks[b]["t"]
        if t["t"] == "call":
            c = callee(t) or ""
            if any(x in c for x in ROUTINE_FAMILIES) and cn(t).split("::")[-1] not in NOT_A_ROUTINE:
                out.add(cn(t))
    return out


def _arm_table(db, f, enum_name, collect):
    """{variant: collect(f, blocks exclusive to that variant's arm)} for the match on `enum_name` in f (None if absent)"""
    adts = [a for k, a in db.adts.items() if k.startswith("boa_ast::") and k.endswith("::" + enum_name)]
    if not adts:
        return None
    adt = adts[0]
    for sb in f._rpo():
        tt = f.blocks[sb]["t"]
        if tt["t"] != "switch":
            continue
        l = op_local(tt["o"])
        d = f.single_def(l) if l is not None else None
        if not d or d[1] == "t" or d[2].get("k") != "discr":
            continue
        if ("::" + enum_name) not in f.locals[d[2]["p"][0]]:
            continue
        if len(tt["vals"]) < len(adt["variants"]) - 1:
            continue          # an `if let`/`matches!` on one variant, not the operator match
        reach = {}
        for i, v in enumerate(adt["variants"]):
            tgt = tt["tgts"][tt["vals"].index(str(i))] if str(i) in tt["vals"] else tt["tgts"][-1]
            reach[v["name"]] = f.reach_from([tgt], avoid={sb})
        res = {}
        for n, r in reach.items():
            others = set().union(*[x for m, x in reach.items() if m != n])
            res[n] = collect(f, r - others)
        return res
    return None


def _camel(snake):
    return "".join(x.capitalize() for x in snake.split("_"))


def r5(db, rep):
    rep.rule("R5", "per operator, the constant folder calls the same value routines as the opcode handler the compiler emits "
                   "for it (or an audited equivalent pair): a fold can never succeed, or produce a value, where the VM would "
                   "throw or produce another")
    folder = {}
    for name in ("constant_fold_unary_expr", "constant_fold_binary_expr"):
        fs = [f for f in db.fns.values() if f.id.startswith(PASS) and f.name == name]
        if not rep.anchor("R5", f"ConstantFolding::{name}", fs):
            return
        for e in OP_ENUMS:
            t = _arm_table(db, fs[0], e, _routines)
            if t:
                folder[e] = t
    emits = {}

    def emit_calls(f, blocks):
        return {cn(f.blocks[b]["t"]).split("::")[-1] for b in blocks
                if f.blocks[b]["t"]["t"] == "call" and cn(f.blocks[b]["t"]).startswith("BytecodeEmitter::emit_")}
    for name in ("compile_unary", "compile_binary_arithmetic", "compile_binary_bitwise", "compile_binary_relational"):
        fs = [f for f in db.fns.values() if f.id.startswith("boa_engine::bytecompiler") and f.name == name and "{closure" not in f.id]
        if not rep.anchor("R5", f"ByteCompiler::{name}", fs):
            return
        for g in db.all_nested(fs[0]):
            for e in OP_ENUMS:
                if e in emits:
                    continue
                t = _arm_table(db, g, e, emit_calls)
                if t:
                    emits[e] = t
    n = 0
    for e in OP_ENUMS:
        if not rep.anchor("R5", f"operator match on {e} in the folder", folder.get(e)) or \
                not rep.anchor("R5", f"operator match on {e} in the bytecompiler", emits.get(e)):
            continue
        for v, froutines in sorted(folder[e].items()):
            op = f"{e}::{v}"
            if not froutines:
                rep.ob("R5", f"{op}:not-folded", op in NOT_FOLDED,
                       f"the folder's arm for {op} no longer evaluates anything although it used to (table out of date?)")
                continue
            n += 1
            ems = sorted(x for x in emits[e].get(v, ()) if x not in ("emit_move", "emit_jump", "emit_store_undefined"))
            handlers = []
            for em in ems:
                hn = _camel(em[len("emit_"):])
                handlers += [h for h in db.fns.values() if h.id.startswith("boa_engine::vm::opcode")
                             and h.id.endswith(f"::{hn}::operation")]
            if not handlers:
                rep.ob("R5", f"{op}:handler-found", False,
                       f"no opcode handler found for {op} (compiler emits {ems}) — cannot compare the folder with the VM")
                continue
            vroutines = set()
            for h in handlers:
                vroutines |= {r for r in _routines(h, h.reachable()) if not r.endswith("_fast")}
            same = froutines == vroutines
            audited = (op, tuple(sorted(froutines)), tuple(sorted(vroutines))) in AUDITED_EQUIV
            rep.ob("R5", f"{op}:folder-matches-vm", same or audited,
                   f"constant folding evaluates {op} with {sorted(froutines)} but the VM ({'/'.join(_camel(x[5:]) for x in ems)}) "
                   f"uses {sorted(vroutines)}: with the optimizer on, a literal operand can fold to a value where the "
                   f"unoptimized program throws or computes something else (e.g. `+1n` must stay a TypeError)",
                   loc=handlers[0].span)
    rep.floor("R5", "folded operators compared with their opcode handler", n, 25)


def r7(db, rep, lit):
    rep.rule("R7", "a moved-out operand replaces the whole expression only when it was tested to be a Literal or was rebuilt "
                   "by a wrapper (value context): a logical / comma fold must not turn a value into a reference")
    n = 0
    for fname in ("ConstantFolding::constant_fold_unary_expr", "ConstantFolding::constant_fold_binary_expr"):
        fs = [f for f in db.fns.values() if cname(f.id) == fname]
        if not rep.anchor("R7", fname, fs):
            continue
        f = fs[0]
        sws = expr_discr_switches(f)
        k = 0
        for b in sorted(f.reachable()):
            for st in f.blocks[b]["s"]:
                r = st["r"]
                if not (st["p"] == [0] and r.get("k") == "agg" and r.get("adt", "").endswith("PassAction")
                        and r.get("variant") == "Replace" and r["ops"]):
                    continue
                pl = op_local(r["ops"][0])
                for rt in (roots(f, pl) if pl is not None else []):
                    if not (rt[0] == "call" and cn(rt[2]).endswith("mem::replace") and rt[2]["args"]):
                        continue
                    side = None
                    al = op_local(rt[2]["args"][0])
                    for ar in (roots(f, al) if al is not None else []):
                        if ar[0] == "call" and cn(ar[2]).split("::")[-1] in ("rhs_mut", "lhs_mut", "target_mut"):
                            side = cn(ar[2]).split("::")[-1][:-4]
                    if side is None:
                        continue
                    n += 1
                    # the same operand was tested to be a Literal on every path to this exit
                    ok = False
                    for sb, cases, other, place in sws:
                        if lit not in cases or not f.dominates(sb, b):
                            continue
                        src = {cn(x[2]).split("::")[-1] for x in roots(f, place[0]) if x[0] == "call"}
                        if side not in src:
                            continue
                        lt = cases[lit]
                        others = [t for v, t in cases.items() if v != lit] + ([other] if other != lt else [])
                        # path-sensitive: `matches!(x, Literal(_))` merges its arms into a bool that is switched on later
                        if f.path_search([lt], {sb}, lambda x, b=b: x == b) is not None and \
                                f.path_search(others, {sb}, lambda x, b=b: x == b) is None:
                            ok = True
                    rep.ob("R7", f"{fname}:replace-by-{side}:{k}:literal-or-rebuilt", ok,
                           f"{fname} replaces the whole expression by its moved-out {side} operand ({f.loc(b)}) although that "
                           f"operand was not tested to be a Literal and is not rebuilt as a value: `(true && o.f)()` becomes "
                           f"`o.f()` (this = o), `typeof (true && x)` stops throwing, `delete (true && o.p)` deletes", loc=f.loc(b))
                    k += 1
    rep.floor("R7", "Replace exits fed by a moved-out operand", n, 1)


def r6(db, rep):
    rep.rule("R6", "no NaN-blind float comparison in the optimizer passes: a comparison of f64 operands is accompanied by an "
                   "is_nan() test of one of them in the same function (`NaN != 0.0` is true, but NaN is falsy)")
    scanned = 0
    n = 0
    for f in db.fns.values():
        if not f.id.startswith("boa_engine::optimizer") or "::tests" in f.id:
            continue
        scanned += 1
        k = 0
        nan_tested = set()
        for b, t in f.calls():
            if (callee(t) or "").endswith("f64>::is_nan") or cn(t).endswith("f64::is_nan"):
                l = op_local(t["args"][0]) if t["args"] else None
                if l is not None:
                    nan_tested |= {json_k(r) for r in roots(f, l)}
        for b in sorted(f.reachable()):
            for st in f.blocks[b]["s"]:
                r = st["r"]
                if r.get("k") != "bin" or r.get("ty") not in ("f64", "f32") or r.get("op") not in ("Eq", "Ne", "Lt", "Le", "Gt", "Ge"):
                    continue
                n += 1
                ok = False
                for o in (r["a"], r["b"]):
                    l = op_local(o)
                    if l is not None and {json_k(x) for x in roots(f, l)} & nan_tested:
                        ok = True
                rep.ob("R6", f"{cname(f.id)}:float-compare:{k}:nan-aware", ok,
                       f"{cname(f.id)} compares floats with {r['op']} ({f.file}:{st.get('ln')}) without testing is_nan(): a NaN "
                       f"literal (produced by folding `0/0`) is then classified wrongly — `if (0/0) A else B` is rewritten to A "
                       f"under the optimizer although NaN is falsy", loc=f"{f.file}:{st.get('ln')}")
                k += 1
    rep.analysed["R6.float comparisons in the optimizer"] = n
    rep.floor("R6", "optimizer functions scanned for float comparisons", scanned, 40)


def json_k(x):
    import json
    return json.dumps(x, sort_keys=True, default=str)


def run(db, rep, tier):
    lit = variant_index(db, EXPR, "Literal")
    if not rep.anchor("R1", "boa_ast::expression::Expression::Literal", lit is not None):
        return
    r1(db, rep, lit)
    r2(db, rep, lit)
    r3(db, rep)
    r4(db, rep)
    r4b(db, rep)
    r5(db, rep)
    r6(db, rep)
    r7(db, rep, lit)
    rep.assumptions += ["the Expression enum has no explicit discriminants (variant index = discriminant)"]
