#!/usr/bin/env python3
"""mkpatch.py <name> <prop> <expected-key-substring> <file> <old> <new> [<file> <old> <new> ...]
creates /verif/selftest/<name>.patch (a mutant of /repo) by textual replacement, registers it in
/verif/selftest/expect.json, and leaves /repo unchanged."""
import json, os, subprocess, sys
name, prop, key = sys.argv[1:4]
rest = sys.argv[4:]
REPO = "/repo"
assert subprocess.run(["git", "-C", REPO, "status", "--porcelain", "-uno"], capture_output=True, text=True).stdout.strip() == "", "repo dirty"
try:
    for i in range(0, len(rest), 3):
        f, old, new = rest[i:i + 3]
        p = os.path.join(REPO, f)
        s = open(p).read()
        assert s.count(old) >= 1, f"pattern not found in {f}: {old!r}"
        cnt = s.count(old)
        if cnt > 1 and not os.environ.get("ALL"):
            n = int(os.environ.get("NTH", "0"))
            idx = -1
            for _ in range(n + 1):
                idx = s.index(old, idx + 1)
            s = s[:idx] + new + s[idx + len(old):]
        else:
            s = s.replace(old, new)
        open(p, "w").write(s)
    d = subprocess.run(["git", "-C", REPO, "diff"], capture_output=True, text=True).stdout
    open(f"/verif/selftest/{name}.patch", "w").write(d)
finally:
    subprocess.run(["git", "-C", REPO, "checkout", "--", "."], check=True)
ep = "/verif/selftest/expect.json"
e = json.load(open(ep)) if os.path.exists(ep) else {}
e[name] = {"property": prop, "expect_key": key}
json.dump(e, open(ep, "w"), indent=1, sort_keys=True)
print("wrote", name, len(d.splitlines()), "lines")
