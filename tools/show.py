#!/usr/bin/env python3
"""debug: pretty-print the MIR-lite facts of functions whose id contains the argument"""
import sys, os, glob, json
sys.path.insert(0, os.path.join(os.path.dirname(os.path.abspath(__file__)), "..", "rules"))
import facts

def pl(p):
    s = f"_{p[0]}"
    for e in p[1:]:
        if e == "*": s = f"(*{s})"
        elif e.startswith("f:"): s += "." + e[2:].split(".")[-1]
        elif e.startswith("v:"): s = f"({s} as {e[2:]})"
        else: s += f"[{e}]"
    return s
def op(o):
    if o[0] in ("c", "m"): return ("move " if o[0] == "m" else "") + pl(o[1])
    if o[0] == "k":
        c = o[1]
        return "const " + (c.get("fn") or c.get("v") or c.get("c") or "?") + (f" [{c['def']}]" if "def" in c else "")
    return str(o)
def rv(r):
    k = r["k"]
    if k == "use": return op(r["o"])
    if k == "ref": return ("&mut " if r["m"] else "&") + pl(r["p"])
    if k == "rawptr": return "&raw " + pl(r["p"])
    if k == "cast": return f"{op(r['o'])} as {r['ty']} ({r['ck']})"
    if k == "bin": return f"{r['op']}({op(r['a'])}, {op(r['b'])})"
    if k == "un": return f"{r['op']}({op(r['o'])})"
    if k == "discr": return f"discriminant({pl(r['p'])})"
    if k == "agg":
        n = r.get("adt", r.get("def", r["ak"])) + ("::" + r["variant"] if "variant" in r else "")
        return f"{n}{{" + ", ".join(op(o) for o in r["ops"]) + "}"
    return json.dumps(r)

def main():
    pat = sys.argv[1]
    crates = sys.argv[2].split(",") if len(sys.argv) > 2 else None
    fd = facts.latest()
    db = facts.DB(fd, crates)
    for f in db.fns.values():
        if pat not in f.id: continue
        print("fn", f.id, f.span, "argc", f.rec["argc"])
        for i, t in enumerate(f.locals): print(f"   let _{i}: {t}" + (f"  // {f.var_name(i)}" if f.var_name(i) else ""))
        for b, blk in enumerate(f.blocks):
            print(f" bb{b}{' (cleanup)' if blk.get('c') else ''}:")
            for s in blk["s"]: print(f"    {pl(s['p'])} = {rv(s['r'])}   // {s.get('ln')}")
            t = blk["t"]; k = t["t"]
            if k == "call":
                print(f"    {pl(t['dest'])} = {facts.callee(t) or op(t['fo'])}({', '.join(op(a) for a in t['args'])}) -> bb{t.get('to')} unw {t.get('unw')}  // {t.get('ln')}")
            elif k == "switch": print(f"    switch {op(t['o'])} {list(zip(t['vals'], t['tgts']))} else bb{t['tgts'][-1]}")
            elif k == "drop": print(f"    drop({pl(t['p'])}: {t['ty']}) -> bb{t['to']}  // {t.get('ln')}")
            elif k == "assert": print(f"    assert {t['kind']} {op(t['cond'])}=={t['exp']} -> bb{t['to']}")
            else: print("   ", json.dumps(t))
main()
