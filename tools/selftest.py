#!/usr/bin/env python3
"""selftest.py [names...] : apply each mutant patch to /repo, run the property's check, require a
VIOLATION whose replay file name contains the expected key, and undo the patch."""
import json, os, subprocess, sys, re
REPO = "/repo"
V = "/verif"
exp = json.load(open(f"{V}/selftest/expect.json"))
names = sys.argv[1:] or sorted(exp)
fail = 0
for n in names:
    e = exp[n]
    assert subprocess.run(["git", "-C", REPO, "status", "--porcelain", "-uno"], capture_output=True, text=True).stdout.strip() == "", "repo dirty"
    try:
        a = subprocess.run(["git", "-C", REPO, "apply", f"{V}/selftest/{n}.patch"], capture_output=True, text=True)
        if a.returncode != 0:
            print("STALE " + n, e["property"], "patch does not apply:", a.stderr.strip().splitlines()[0][:120], flush=True)
            fail += 1
            continue
        r = subprocess.run([f"{V}/check", e["property"]], capture_output=True, text=True, cwd=V)
    finally:
        subprocess.run(["git", "-C", REPO, "checkout", "--", "."], check=True)
    vio = [l for l in r.stdout.splitlines() if l.startswith("VIOLATION")]
    key = re.sub(r"[^A-Za-z0-9_.-]+", "_", e["expect_key"])
    hit = [v for v in vio if key in v]
    if e.get("expect_silent"):
        ok = not vio and r.returncode == 0
    else:
        ok = bool(hit) and r.returncode == 1
    print(("PASS " if ok else "FAIL ") + n, e["property"], f"violations={len(vio)}", "" if ok else (r.stdout[-1500:] + r.stderr[-1500:]), flush=True)
    if len(vio) > len(hit) and ok:
        print("   extra:", [v.split("replay=")[1].split("/")[-1] for v in vio if v not in hit][:6])
    fail += 0 if ok else 1
sys.exit(1 if fail else 0)
