#!/usr/bin/env python3
"""regenerates MANIFEST.json from the table below (kept valid at all times)"""
import json
CLAIMED = {
 "C09": ("collector: trace / trace_non_roots / run_finalizer of every Trace impl agree on fields and guards; collect() phase order; the finalize phase skipped only when every unreachable list is empty; ephemeron fix-point exit; sweep/dump under DropGuard; Drop of Trace types finalizes only under finalizer_safe()",
         "sibling agreement over the three tracing bodies of every impl + ordering/dominance rules over the collector's MIR", "§5 C09"),
 "C12": ("value tagging: compile-time enumeration of all 65 536 x 3 bit patterns against the current `mod bits` (exactly-one-kind, round trips, NaN canonicalisation); single door for constructing NanBoxedValue; (thorough) jsvalue-enum API parity",
         "compile-time witness (rustc const evaluation of the extracted source) + who-may-construct/provenance rule over MIR", "§5 C12"),
 "C15": ("typed arrays: float-to-int element conversions range-limited before the cast (no saturation before the modular step); no round-half-away before a cast; unsafe element access on subslice()d, validated slices; raw copies only from audited callers with reference-derived pointers and, between two views, only on the equal side of a kind test; a buffer-length witness is not reused after script could run; fresh slices are range-indexed only under their own length; raw copy byte counts are whole elements; NaN bit patterns read from buffers are canonicalised (shared C12 witness)",
         "value-shape classification of every Cast(FloatToInt) by reaching definitions and dominating comparisons + provenance/dominance rules on unsafe call sites and on length witnesses across script-capable calls", "§5 C15"),
 "C16": ("jobs: only FIFO-preserving operations on job queues, job types consumed by value and not Clone, budget/non-budget opcode handlers identical up to the budget subtraction, kept objects cleared per batch, await-like steps (PromiseResolve + PerformPromiseThen) have no synchronous shortcut, async-generator requests are settled directly only when Completed",
         "who-may-call on queue fields discovered by type + ADT/impl facts + sibling comparison of the 2x256 generated handlers + must-pass-through on await-like steps", "§5 C16"),
 "C17": ("modules: status transition relation extracted from every transition closure is a subset of the specification's and Evaluated is terminal; the module body is executed only behind status guards; the host loader is asked only for a new, uncached module; [[DFSAncestorIndex]] is only min-updated; both stack-pop arms agree on the cycle root; [[HasTLA]] (contains AwaitExpression) sees for-await and does not look into arrow functions",
         "path-sensitive typestate extraction over MIR closures + who-may-call/dominance + value-shape rule on the low-link stores", "§5 C17"),
 "C18": ("JSON.parse: ECMA-404 pre-validation dominates parsing and evaluation of the same text; JSON parse/compile modes set; JSON.stringify: the escape sequences emitted by quote_json_string lie within the JSON grammar's escape table ; the number lexer performs no float arithmetic (thin: three necessary clauses)",
         "dominance + provenance rule over the MIR of Json::parse; constant/value-shape classification of every append in Json::quote_json_string incl. promoted constants and const tables", "§5 C18"),
 "C14": ("arrays: hash-ordered index iteration is sorted before it can be observed; dense fast paths guarded by is_array (and extensibility for writes); doubles narrowed into the int-packed storage only through a bit-exact round-trip test; dense writes require receiver = object; VM array builders use define semantics; the length slot is never shrunk directly",
         "who-consumes + dominance rules over MIR call sites of the index iterators and dense accessors", "§5 C14"),
 "C20": ("determinism/isolation: no script value reachable from static or thread-local state; seed/address-ordered hash iteration never reaches observable order; nothing is ordered by interner index or address; int and float keys hash alike; shared counters only count up; realm swap paired",
         "type reachability over statics + hasher/key classification of every hash-container iteration site and element-type classification of every sort/search/min/max/ordered-container call from monomorphic MIR types", "§5 C20"),
 "C11": ("strings: equality impls compare lengths before zipping, UTF-8 bytes meet Latin-1 payloads only for ASCII and a Latin-1 payload is decoded as UTF-8 only under is_ascii(), hash arms agree, static table literals ASCII",
         "dominance/provenance rules over MIR of boa_string incl. promoted constant bodies", "§5 C11"),
 "C04": ("binding placement: the three scope visitors agree on scope-bearing nodes, eval/with force escapes, FunctionScopes operations cover every scope field, contains(DirectEval) sees methods / field initializers / static blocks, ContainsVisitor siblings agree, the scope passes agree on scope entry (single-scope statements and loops) and reach every expression-bearing child, node constructors examine each part for direct eval on its own, const cache and constness shortcuts guarded by in_with, the this-escape walker knows arrows, aliased operand registers not live across another operand's code",
         "sibling agreement over impl facts + dominance + interprocedural value flow over the bytecompiler call graph", "§5 C04"),
 "C05": ("optimizer: duplication only under a literal-only purity test, rewrites only under Literal tests, folding evaluates literals only and with the value routines of the opcode handler the compiler emits for the operator, a moved-out operand replaces the node only if literal-tested or rebuilt, no NaN-blind float comparison, DCE keeps hoisted declarations and loop initialisers",
         "dominance rules over MIR of the optimizer passes with enum discriminants read from boa_ast + three-way sibling join folder arm / compiler arm / opcode handler", "§5 C05"),
 "C06": ("inline caches: layout change implies new shape, only cacheable slots stored, prototype-depth bookkeeping, cached slot applied only to the validated holder, unique shapes get a new identity on every transition, no search result indexes the cache list after it shrank",
         "who-may-write + dominance + value-provenance (holder identity) rules over MIR of the property map and IC fast paths", "§5 C06"),
 "C02": ("no internal failure: the compiler cannot drop a live Register (drop bomb); every always-on arithmetic panic (÷0, %0, MIN/-1, -MIN) (also through core's wrapping_/overflowing_/euclid division methods) is guarded or has a never-zero divisor; completion records of run/resume are consumed and never asserted non-throwing",
         "typestate on drop-elaborated MIR + reaching-definition / dominating-comparison classification of every arithmetic Assert terminator and division-method call + value-flow rule on CompletionRecord results", "§5 C02"),
 "C10": ("GC transparency: Trace completeness of every workspace type (no GC edge in a field the trace body skips), WeakRef kept-alive protocol, ephemeron fix-point exit",
         "type reachability fixpoint over ADT facts + MIR field-visit analysis of every Trace impl; path rules for AddToKeptObjects/ClearKeptObjects", "§5 C10"),
 "C03": ("compiled code blocks: register linearity and frame size, scope / jump-control / handler pairing on every compiler path, binding-reference window, labels consumed, no register use after dealloc across an allocation, jump-record action builders agree, the scope passes agree on scope entry",
         "typestate/pairing rules over drop-elaborated MIR (path-sensitive must-pass-through, who-may-write)", "§5 C03"),
 "C07": ("VM balance: frame push/pop pairing, value-stack truncation on frame removal and in the unwinding protocol, (Break and Continue exits), host pushes removed on failure, depth/realm/stack-swap pairs",
         "pairing / must-pass-through rules over MIR of host entries and the unwinding protocol", "§5 C07"),
 "C08": ("runtime limits: loop counter on every back edge, limit check in every [[Call]]/[[Construct]] slot, handler search gated by catchability, completion records of Context::run / GeneratorContext::resume never dropped, every frame push limit-checked or audited, completion merges keep engine errors",
         "path/dominance rules over MIR (must-pass-through, who-may-write)", "§5 C08"),
}
NA = {
 "C01": "trace equality with the ECMAScript semantics for all programs is a value-level relation to an external oracle; no structural clause is both necessary and sufficient (sub-facts are decided under C02/C03/C04/C07)",
 "C13": "correct rounding / shortest-digit output are numeric results of digit algorithms; no sound static argument in reach bounds them, and a structural proxy would fire on correct code",
 "C19": "totality and print-parse identity quantify over all texts of an unbounded grammar; the one structural candidate (expect dominated by peek) could not be made exact without false alarms",
}
ALL = [f"C{i:02d}" for i in range(1, 21)]
PENDING = "checker not built yet in this revision (planned in DESIGN.md §5); not claimed until it runs"
m = {
 "version": 1,
 "setup_cmd": "python3 rules/extract.py default",
 "hooks": {"guard": "boa_verif", "enable": "none: the rustc_private driver reads private items directly; no hook commits exist",
           "baseline_off_cmd": "cd /repo && cargo nextest run --workspace --no-fail-fast --tool-config-file pb:/w/lib/nextest.toml --profile pb --test-threads 8 --offline",
           "source_commits": [], "add_only": True},
 "engines": [
  {"name": "boa-facts", "path": "driver/", "serves_properties": sorted(CLAIMED),
   "kind_free_text": "rustc_private driver (RUSTC_WORKSPACE_WRAPPER under cargo +nightly check) dumping type-checked, macro-expanded, drop-elaborated MIR facts with resolved callees"},
  {"name": "rules", "path": "rules/", "serves_properties": sorted(CLAIMED),
   "kind_free_text": "Python rule engine: CFG, dominators, reaching definitions, call graph, type reachability over the facts"},
 ],
 "checks": [],
 "not_applicable": [],
 "notes": "static analysis only: every verdict is computed from /repo's current source; see DESIGN.md",
}
for p in ALL:
    if p in CLAIMED:
        text, tech, ref = CLAIMED[p]
        m["checks"].append({
            "property_id": p,
            "quick_cmd": f"./check {p} --tier quick",
            "thorough_cmd": f"./check {p} --tier thorough",
            "evidence_file": f"evidence/{p}.json",
            "replay_cmd_template": "cat {path}",
            "engine": "boa-facts+rules",
            "level_claimed": {"category": "other",
                              "text": "static analysis of necessary structural clauses, for all inputs: " + text +
                                      ". The behavioural remainder of the property is not decided.",
                              "design_ref": ref},
            "level_note": "trusted: rustc nightly MIR construction and callee resolution, the fact extractor, the audited instance tables in rules/*.py; assumes the cli feature set of boa_engine",
            "technique": "static analysis: " + tech,
        })
    else:
        m["not_applicable"].append({"property_id": p, "reason": NA.get(p, PENDING)})
json.dump(m, open("/verif/MANIFEST.json", "w"), indent=1)
print("claimed", sorted(CLAIMED))
