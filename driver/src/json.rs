/// JSON string escape (returns the quoted string)
pub fn esc(s: &str) -> String {
    let mut o = String::with_capacity(s.len() + 2);
    o.push('"');
    for c in s.chars() {
        match c {
            '"' => o.push_str("\\\""),
            '\\' => o.push_str("\\\\"),
            '\n' => o.push_str("\\n"),
            '\r' => o.push_str("\\r"),
            '\t' => o.push_str("\\t"),
            c if (c as u32) < 0x20 => o.push_str(&format!("\\u{:04x}", c as u32)),
            c => o.push(c),
        }
    }
    o.push('"');
    o
}
