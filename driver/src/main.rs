// boa-facts: rustc_private fact extractor for the /verif static checkers.
//
// Injected with RUSTC_WORKSPACE_WRAPPER under `cargo +nightly check`; for every
// workspace crate it writes one JSONL fact file into $BOA_FACTS_DIR:
//   <crate>-<pid>.jsonl     one record per line: crate | adt | impl | static | fn
// Nothing is decided here: rules live in /verif/rules (Python).  The driver only
// exposes the type-checked, macro-expanded, drop-elaborated program (MIR at
// mir-opt-level 0) with resolved callees.
#![feature(rustc_private)]
#![allow(clippy::all)]

extern crate rustc_abi;
extern crate rustc_ast;
extern crate rustc_driver;
extern crate rustc_hir;
extern crate rustc_interface;
extern crate rustc_middle;
extern crate rustc_session;
extern crate rustc_span;

use rustc_driver::Compilation;
use rustc_hir::def::DefKind;
use rustc_hir::def_id::{DefId, LocalDefId};
use rustc_middle::mir::{
    self, AggregateKind, AssertKind, BasicBlockData, Body, CastKind, Const, Operand, Place,
    ProjectionElem, Rvalue, StatementKind, TerminatorKind,
};
use rustc_middle::ty::print::PrintTraitRefExt;
use rustc_middle::ty::{self, GenericArgsRef, Instance, Ty, TyCtxt, TypingEnv};
use rustc_span::{ExpnKind, Span};
use std::fmt::Write as _;

mod json;
use json::esc;

struct Cb;

impl rustc_driver::Callbacks for Cb {
    fn after_analysis<'tcx>(
        &mut self,
        _c: &rustc_interface::interface::Compiler,
        tcx: TyCtxt<'tcx>,
    ) -> Compilation {
        let dir = match std::env::var("BOA_FACTS_DIR") {
            Ok(d) => d,
            Err(_) => return Compilation::Continue,
        };
        let krate = tcx.crate_name(rustc_hir::def_id::LOCAL_CRATE).to_string();
        // only extract for the crates asked for (default: everything the wrapper sees,
        // i.e. workspace members)
        if let Ok(only) = std::env::var("BOA_FACTS_ONLY") {
            if !only.split(',').any(|c| c == krate) {
                return Compilation::Continue;
            }
        }
        // skip build scripts / proc-macro crates / test harness targets
        let ct = tcx.crate_types();
        if ct.iter().any(|t| matches!(t, rustc_session::config::CrateType::ProcMacro)) {
            return Compilation::Continue;
        }
        if krate == "build_script_build" {
            return Compilation::Continue;
        }
        KRATE.with(|k| *k.borrow_mut() = krate.clone());
        let mut out = String::with_capacity(64 << 20);
        let mut ex = Extractor { tcx, out: &mut out, nfn: 0, nadt: 0, nimpl: 0, nstatic: 0 };
        ex.run(&krate);
        let (nfn, nadt, nimpl, nstatic) = (ex.nfn, ex.nadt, ex.nimpl, ex.nstatic);
        let _ = write!(
            out,
            "{{\"k\":\"end\",\"crate\":{},\"fns\":{},\"adts\":{},\"impls\":{},\"statics\":{}}}\n",
            esc(&krate),
            nfn,
            nadt,
            nimpl,
            nstatic
        );
        let is_bin = ct.iter().any(|t| matches!(t, rustc_session::config::CrateType::Executable));
        let path = format!(
            "{}/{}{}-{}.jsonl",
            dir,
            krate,
            if is_bin { ".bin" } else { "" },
            std::process::id()
        );
        // one write per process
        std::fs::write(&path, out).expect("write facts");
        Compilation::Continue
    }
}

struct Extractor<'a, 'tcx> {
    tcx: TyCtxt<'tcx>,
    out: &'a mut String,
    nfn: usize,
    nadt: usize,
    nimpl: usize,
    nstatic: usize,
}

thread_local! { static KRATE: std::cell::RefCell<String> = std::cell::RefCell::new(String::new()); }

/// `crate::a::B` -> `<this crate>::a::B` so that an item has one name in every fact file
fn fixcrate(s: String) -> String {
    if !s.contains("crate::") {
        return s;
    }
    KRATE.with(|k| {
        let k = k.borrow();
        let b = s.as_bytes();
        let mut o = String::with_capacity(s.len() + 16);
        let mut i = 0;
        while i < b.len() {
            if s[i..].starts_with("crate::")
                && (i == 0 || !(b[i - 1].is_ascii_alphanumeric() || b[i - 1] == b'_'))
            {
                o.push_str(&k);
                o.push_str("::");
                i += 7;
            } else {
                let ch = s[i..].chars().next().unwrap();
                o.push(ch);
                i += ch.len_utf8();
            }
        }
        o
    })
}

fn tystr<'tcx>(ty: Ty<'tcx>) -> String {
    fixcrate(ty::print::with_no_visible_paths!(ty::print::with_crate_prefix!(ty::print::with_no_trimmed_paths!(format!("{ty}")))))
}

fn full<'tcx>(ty: Ty<'tcx>) -> String {
    tystr(ty)
}

impl<'a, 'tcx> Extractor<'a, 'tcx> {
    fn path(&self, did: DefId) -> String {
        fixcrate(ty::print::with_no_visible_paths!(ty::print::with_crate_prefix!(ty::print::with_no_trimmed_paths!(self.tcx.def_path_str(did)))))
    }

    fn span(&self, sp: Span) -> String {
        let sm = self.tcx.sess.source_map();
        let sp = sp.source_callsite();
        let lo = sm.lookup_char_pos(sp.lo());
        let f = match &lo.file.name {
            rustc_span::FileName::Real(r) => match r.local_path() {
                Some(p) => p.display().to_string(),
                None => format!("{:?}", lo.file.name),
            },
            o => format!("{o:?}"),
        };
        format!("{}:{}", f, lo.line)
    }

    fn line(&self, sp: Span) -> usize {
        let sm = self.tcx.sess.source_map();
        sm.lookup_char_pos(sp.source_callsite().lo()).line
    }

    /// (kind, macro name) of the outermost expansion a span comes from
    fn expn(&self, sp: Span) -> Option<(String, String)> {
        if !sp.from_expansion() {
            return None;
        }
        // walk to the outermost macro
        let mut data = sp.ctxt().outer_expn_data();
        let mut last = None;
        loop {
            match data.kind {
                ExpnKind::Macro(k, name) => {
                    last = Some((format!("{k:?}"), name.to_string()));
                }
                ExpnKind::Desugaring(d) => {
                    if last.is_none() {
                        last = Some(("Desugar".into(), format!("{d:?}")));
                    }
                }
                _ => {}
            }
            if !data.call_site.from_expansion() {
                break;
            }
            data = data.call_site.ctxt().outer_expn_data();
        }
        last
    }

    /// innermost macro name (the macro whose body directly contains the span)
    fn expn_inner(&self, sp: Span) -> Option<String> {
        if !sp.from_expansion() {
            return None;
        }
        let data = sp.ctxt().outer_expn_data();
        match data.kind {
            ExpnKind::Macro(_, name) => Some(name.to_string()),
            ExpnKind::Desugaring(d) => Some(format!("desugar:{d:?}")),
            _ => None,
        }
    }

    // ---------------------------------------------------------------- types
    fn ty_json(&self, ty: Ty<'tcx>, depth: usize, s: &mut String) {
        if depth > 12 {
            let _ = write!(s, "[\"deep\",{}]", esc(&full(ty)));
            return;
        }
        match ty.kind() {
            ty::Bool | ty::Char | ty::Int(_) | ty::Uint(_) | ty::Float(_) | ty::Str | ty::Never => {
                let _ = write!(s, "[\"prim\",{}]", esc(&full(ty)));
            }
            ty::Adt(def, args) => {
                let _ = write!(s, "[\"adt\",{},[", esc(&self.path(def.did())));
                self.args_json(args, depth, s);
                s.push_str("]]");
            }
            ty::Ref(_, t, m) => {
                let _ = write!(s, "[\"ref\",{},", if m.is_mut() { 1 } else { 0 });
                self.ty_json(*t, depth + 1, s);
                s.push(']');
            }
            ty::RawPtr(t, m) => {
                let _ = write!(s, "[\"ptr\",{},", if m.is_mut() { 1 } else { 0 });
                self.ty_json(*t, depth + 1, s);
                s.push(']');
            }
            ty::Slice(t) => {
                s.push_str("[\"slice\",");
                self.ty_json(*t, depth + 1, s);
                s.push(']');
            }
            ty::Array(t, _) => {
                s.push_str("[\"array\",");
                self.ty_json(*t, depth + 1, s);
                s.push(']');
            }
            ty::Tuple(ts) => {
                s.push_str("[\"tuple\",[");
                for (i, t) in ts.iter().enumerate() {
                    if i > 0 {
                        s.push(',');
                    }
                    self.ty_json(t, depth + 1, s);
                }
                s.push_str("]]");
            }
            ty::Param(p) => {
                let _ = write!(s, "[\"param\",{},{}]", p.index, esc(p.name.as_str()));
            }
            ty::Dynamic(preds, _) => {
                s.push_str("[\"dyn\",[");
                let mut first = true;
                let mut traits: Vec<DefId> = Vec::new();
                if let Some(p) = preds.principal_def_id() {
                    traits.push(p);
                    // supertraits
                    for sup in rustc_middle::ty::elaborate::supertrait_def_ids(self.tcx, p) {
                        if !traits.contains(&sup) {
                            traits.push(sup);
                        }
                    }
                }
                for a in preds.auto_traits() {
                    traits.push(a);
                }
                for t in traits {
                    if !first {
                        s.push(',');
                    }
                    first = false;
                    s.push_str(&esc(&self.path(t)));
                }
                s.push_str("]]");
            }
            ty::FnPtr(..) => {
                let _ = write!(s, "[\"fnptr\",{}]", esc(&full(ty)));
            }
            ty::FnDef(did, _) => {
                let _ = write!(s, "[\"fndef\",{}]", esc(&self.path(*did)));
            }
            ty::Closure(did, args) => {
                let _ = write!(s, "[\"closure\",{},[", esc(&self.path(*did)));
                let ups = args.as_closure().upvar_tys();
                for (i, t) in ups.iter().enumerate() {
                    if i > 0 {
                        s.push(',');
                    }
                    self.ty_json(t, depth + 1, s);
                }
                s.push_str("]]");
            }
            ty::Alias(..) => {
                let _ = write!(s, "[\"alias\",{}]", esc(&full(ty)));
            }
            _ => {
                let _ = write!(s, "[\"other\",{}]", esc(&full(ty)));
            }
        }
    }

    fn args_json(&self, args: GenericArgsRef<'tcx>, depth: usize, s: &mut String) {
        let mut first = true;
        for a in args.iter() {
            if !first {
                s.push(',');
            }
            first = false;
            match a.kind() {
                ty::GenericArgKind::Type(t) => self.ty_json(t, depth + 1, s),
                ty::GenericArgKind::Lifetime(_) => s.push_str("[\"lt\"]"),
                ty::GenericArgKind::Const(c) => {
                    let _ = write!(s, "[\"const\",{}]", esc(&format!("{c}")));
                }
            }
        }
    }

    fn attrs_of(&self, did: LocalDefId) -> Vec<String> {
        let hir_id = self.tcx.local_def_id_to_hir_id(did);
        let mut v = Vec::new();
        for a in self.tcx.hir_attrs(hir_id) {
            if let rustc_hir::Attribute::Unparsed(item) = a {
                let p: Vec<String> =
                    item.path.segments.iter().map(|s| s.as_str().to_string()).collect();
                let mut txt = p.join("::");
                // keep the argument text of `boa_gc(...)`-style helper attributes
                let args = format!("{:?}", item.args);
                for key in ["empty_trace", "unsafe_empty_trace", "unsafe_no_drop"] {
                    if args.contains(key) {
                        txt.push_str(&format!("({key})"));
                    }
                }
                v.push(txt);
            }
        }
        v
    }

    // ---------------------------------------------------------------- items
    fn run(&mut self, krate: &str) {
        let tcx = self.tcx;
        let _ = write!(self.out, "{{\"k\":\"crate\",\"name\":{}}}\n", esc(krate));
        // ADTs, impls, statics
        for id in tcx.hir_free_items() {
            let did = id.owner_id.def_id;
            match tcx.def_kind(did) {
                DefKind::Struct | DefKind::Enum | DefKind::Union => self.adt(did),
                DefKind::Impl { .. } => self.imp(did),
                DefKind::Static { .. } => self.stat(did, "static"),
                DefKind::Const { .. } => self.stat(did, "const"),
                _ => {}
            }
        }
        // nested statics/consts (inside fn bodies) are not free items: walk all body owners
        let mut keys: Vec<LocalDefId> = tcx.mir_keys(()).iter().copied().collect();
        keys.sort_by_key(|d| tcx.def_path_hash(d.to_def_id()));
        for did in &keys {
            match tcx.def_kind(*did) {
                DefKind::Static { .. } => {
                    if tcx.hir_free_items().all(|i| i.owner_id.def_id != *did) {
                        self.stat(*did, "static")
                    }
                }
                _ => {}
            }
        }
        for did in keys {
            let kind = tcx.def_kind(did);
            match kind {
                DefKind::Fn | DefKind::AssocFn | DefKind::Closure => {
                    if tcx.is_constructor(did.to_def_id()) {
                        continue;
                    }
                    let body = tcx.optimized_mir(did);
                    self.body(did, body, &format!("{kind:?}"), None);
                    for (pi, pb) in tcx.promoted_mir(did).iter_enumerated() {
                        self.body(did, pb, "promoted", Some(pi.as_usize()));
                    }
                }
                DefKind::Static { .. } | DefKind::Const { .. } | DefKind::AssocConst { .. } => {
                    let body = tcx.mir_for_ctfe(did);
                    self.body(did, body, &format!("{}", kind.descr(did.to_def_id())), None);
                    for (pi, pb) in tcx.promoted_mir(did).iter_enumerated() {
                        self.body(did, pb, "promoted", Some(pi.as_usize()));
                    }
                }
                _ => {}
            }
        }
    }

    fn adt(&mut self, did: LocalDefId) {
        let tcx = self.tcx;
        let def = tcx.adt_def(did);
        let mut s = String::new();
        let _ = write!(
            s,
            "{{\"k\":\"adt\",\"id\":{},\"kind\":{},\"span\":{},\"attrs\":[",
            esc(&self.path(did.to_def_id())),
            esc(def.descr()),
            esc(&self.span(tcx.def_span(did)))
        );
        for (i, a) in self.attrs_of(did).iter().enumerate() {
            if i > 0 {
                s.push(',');
            }
            s.push_str(&esc(a));
        }
        s.push_str("],\"generics\":[");
        let g = tcx.generics_of(did);
        let mut first = true;
        for i in 0..g.count() {
            let p = g.param_at(i, tcx);
            if !first {
                s.push(',');
            }
            first = false;
            let k = match p.kind {
                ty::GenericParamDefKind::Lifetime => "lt",
                ty::GenericParamDefKind::Type { .. } => "ty",
                ty::GenericParamDefKind::Const { .. } => "const",
            };
            let _ = write!(s, "[{},{}]", esc(p.name.as_str()), esc(k));
        }
        // which type params are bounded by Trace-like traits (names of bounds)
        s.push_str("],\"bounds\":[");
        let preds = tcx.predicates_of(did).instantiate_identity(tcx);
        let mut first = true;
        for (p, _) in preds.predicates.iter().zip(preds.spans.iter()) {
            let p = p.skip_norm_wip();
            if let Some(tp) = p.as_trait_clause() {
                let tp = tp.skip_binder();
                if !first {
                    s.push(',');
                }
                first = false;
                let _ = write!(
                    s,
                    "[{},{}]",
                    esc(&full(tp.self_ty())),
                    esc(&self.path(tp.def_id()))
                );
            }
        }
        s.push_str("],\"variants\":[");
        for (vi, v) in def.variants().iter().enumerate() {
            if vi > 0 {
                s.push(',');
            }
            let _ = write!(s, "{{\"name\":{},\"fields\":[", esc(v.name.as_str()));
            for (fi, f) in v.fields.iter().enumerate() {
                if fi > 0 {
                    s.push(',');
                }
                let fty = tcx.type_of(f.did).instantiate_identity().skip_norm_wip();
                let _ = write!(s, "{{\"n\":{},\"ty\":{},\"t\":", esc(f.name.as_str()), esc(&full(fty)));
                self.ty_json(fty, 0, &mut s);
                s.push_str(",\"attrs\":[");
                if let Some(l) = f.did.as_local() {
                    for (i, a) in self.attrs_of(l).iter().enumerate() {
                        if i > 0 {
                            s.push(',');
                        }
                        s.push_str(&esc(a));
                    }
                }
                s.push_str("]}");
            }
            s.push_str("]}");
        }
        s.push_str("]}\n");
        self.out.push_str(&s);
        self.nadt += 1;
    }

    fn imp(&mut self, did: LocalDefId) {
        let tcx = self.tcx;
        let mut s = String::new();
        let self_ty = tcx.type_of(did).instantiate_identity().skip_norm_wip();
        let tr = tcx.impl_opt_trait_ref(did).map(|t| t.instantiate_identity().skip_norm_wip());
        let _ = write!(
            s,
            "{{\"k\":\"impl\",\"id\":{},\"trait\":{},\"trait_full\":{},\"self\":{},\"self_t\":",
            esc(&self.path(did.to_def_id())),
            match tr {
                Some(t) => esc(&self.path(t.def_id)),
                None => "null".into(),
            },
            match tr {
                Some(t) => esc(&fixcrate(ty::print::with_no_visible_paths!(ty::print::with_crate_prefix!(ty::print::with_no_trimmed_paths!(format!("{}", t.print_only_trait_path())))))),
                None => "null".into(),
            },
            esc(&full(self_ty)),
        );
        self.ty_json(self_ty, 0, &mut s);
        let sp = tcx.def_span(did);
        let _ = write!(s, ",\"span\":{},\"exp\":", esc(&self.span(sp)));
        match self.expn(sp) {
            Some((k, n)) => {
                let _ = write!(s, "[{},{}]", esc(&k), esc(&n));
            }
            None => s.push_str("null"),
        }
        s.push_str(",\"items\":[");
        for (i, it) in tcx.associated_item_def_ids(did).iter().enumerate() {
            if i > 0 {
                s.push(',');
            }
            s.push_str(&esc(&self.path(*it)));
        }
        s.push_str("]}\n");
        self.out.push_str(&s);
        self.nimpl += 1;
    }

    fn stat(&mut self, did: LocalDefId, what: &str) {
        let tcx = self.tcx;
        let ty = tcx.type_of(did).instantiate_identity().skip_norm_wip();
        let mut s = String::new();
        let mutable = matches!(
            tcx.def_kind(did),
            DefKind::Static { mutability: rustc_ast::Mutability::Mut, .. }
        );
        let tl = tcx.is_thread_local_static(did.to_def_id());
        let freeze = ty.is_freeze(tcx, TypingEnv::post_analysis(tcx, did));
        let _ = write!(
            s,
            "{{\"k\":{},\"id\":{},\"ty\":{},\"mut\":{},\"thread_local\":{},\"freeze\":{},\"span\":{},\"t\":",
            esc(what),
            esc(&self.path(did.to_def_id())),
            esc(&full(ty)),
            mutable,
            tl,
            freeze,
            esc(&self.span(tcx.def_span(did)))
        );
        self.ty_json(ty, 0, &mut s);
        // scalar value of integer consts
        s.push_str(",\"val\":");
        let mut val = "null".to_string();
        if what == "const" && (ty.is_integral() || ty.is_bool()) {
            if let Ok(v) = tcx.const_eval_poly(did.to_def_id()) {
                if let Some(sc) = v.try_to_scalar_int() {
                    val = format!("\"{}\"", sc.to_bits_unchecked());
                }
            }
        }
        s.push_str(&val);
        s.push_str("}\n");
        self.out.push_str(&s);
        self.nstatic += 1;
    }

    // ---------------------------------------------------------------- bodies
    fn place(&self, body: &Body<'tcx>, p: &Place<'tcx>, s: &mut String) {
        let tcx = self.tcx;
        let _ = write!(s, "[{}", p.local.as_u32());
        let mut ty = mir::PlaceTy::from_ty(body.local_decls[p.local].ty);
        for e in p.projection.iter() {
            s.push(',');
            match e {
                ProjectionElem::Deref => s.push_str("\"*\""),
                ProjectionElem::Field(f, _) => {
                    // name the field
                    let name = match ty.ty.kind() {
                        ty::Adt(def, _) => {
                            let v = match ty.variant_index {
                                Some(v) => v,
                                None => rustc_abi::FIRST_VARIANT,
                            };
                            if def.is_enum() && ty.variant_index.is_none() {
                                format!("?.{}", f.as_u32())
                            } else {
                                let vd = def.variant(v);
                                format!("{}.{}", self.path(def.did()), vd.fields[f].name)
                            }
                        }
                        ty::Closure(..) => format!("upvar.{}", f.as_u32()),
                        _ => format!(".{}", f.as_u32()),
                    };
                    let _ = write!(s, "{}", esc(&format!("f:{name}")));
                }
                ProjectionElem::Downcast(name, vi) => {
                    let n = match name {
                        Some(n) => n.to_string(),
                        None => format!("{}", vi.as_u32()),
                    };
                    let _ = write!(s, "{}", esc(&format!("v:{n}")));
                }
                ProjectionElem::Index(l) => {
                    let _ = write!(s, "\"i:{}\"", l.as_u32());
                }
                ProjectionElem::ConstantIndex { offset, from_end, .. } => {
                    let _ = write!(s, "\"ci:{}{}\"", if from_end { "-" } else { "" }, offset);
                }
                ProjectionElem::Subslice { .. } => s.push_str("\"sub\""),
                ProjectionElem::OpaqueCast(_) => s.push_str("\"oc\""),
                ProjectionElem::UnwrapUnsafeBinder(_) => s.push_str("\"ub\""),
            }
            ty = ty.projection_ty(tcx, e);
        }
        s.push(']');
    }

    fn operand(&self, body: &Body<'tcx>, o: &Operand<'tcx>, s: &mut String) {
        match o {
            Operand::Copy(p) => {
                s.push_str("[\"c\",");
                self.place(body, p, s);
                s.push(']');
            }
            Operand::Move(p) => {
                s.push_str("[\"m\",");
                self.place(body, p, s);
                s.push(']');
            }
            Operand::Constant(c) => {
                s.push_str("[\"k\",");
                self.constant(body, &c.const_, s);
                s.push(']');
            }
            #[allow(unreachable_patterns)]
            _ => s.push_str("[\"rt\"]"),
        }
    }

    fn constant(&self, body: &Body<'tcx>, c: &Const<'tcx>, s: &mut String) {
        let tcx = self.tcx;
        let ty = c.ty();
        let _ = write!(s, "{{\"ty\":{}", esc(&tystr(ty)));
        if let ty::FnDef(did, args) = ty.kind() {
            let _ = write!(s, ",\"fn\":{}", esc(&self.path(*did)));
            if let Some(r) = self.resolve(body, *did, args) {
                let _ = write!(s, ",\"rfn\":{}", esc(&r));
            }
        } else {
            let tenv = TypingEnv::post_analysis(tcx, body.source.def_id());
            // scalar value
            let mut done = false;
            if ty.is_integral() || ty.is_bool() || ty.is_char() || ty.is_floating_point() {
                if let Some(sc) = c.try_eval_scalar_int(tcx, tenv) {
                    let bits = sc.to_bits_unchecked();
                    let v = if ty.is_signed() {
                        let size = sc.size();
                        format!("{}", size.sign_extend(bits) as i128)
                    } else {
                        format!("{bits}")
                    };
                    let _ = write!(s, ",\"v\":\"{}\"", v);
                    done = true;
                }
            }
            if !done {
                // enum unit-variant constants / string literals: keep the pretty form (bounded)
                let mut txt = fixcrate(ty::print::with_no_visible_paths!(ty::print::with_crate_prefix!(ty::print::with_no_trimmed_paths!(format!("{c}")))));
                if txt.len() > 200 {
                    txt.truncate(200);
                }
                let _ = write!(s, ",\"c\":{}", esc(&txt));
                // named const / static reference
                match c {
                    Const::Unevaluated(u, _) => {
                        let _ = write!(s, ",\"def\":{}", esc(&self.path(u.def)));
                    }
                    Const::Val(mir::ConstValue::Scalar(rustc_middle::mir::interpret::Scalar::Ptr(p, _)), _) => {
                        let alloc = p.provenance.alloc_id();
                        if let Some(ga) = tcx.try_get_global_alloc(alloc) {
                            match ga {
                                rustc_middle::mir::interpret::GlobalAlloc::Static(d) => {
                                    let _ = write!(s, ",\"static\":{}", esc(&self.path(d)));
                                }
                                rustc_middle::mir::interpret::GlobalAlloc::Function { instance } => {
                                    let _ = write!(s, ",\"fn\":{}", esc(&self.path(instance.def_id())));
                                }
                                _ => {}
                            }
                        }
                    }
                    _ => {}
                }
            } else if let Const::Unevaluated(u, _) = c {
                let _ = write!(s, ",\"def\":{}", esc(&self.path(u.def)));
            }
        }
        s.push('}');
    }

    fn resolve(&self, body: &Body<'tcx>, did: DefId, args: GenericArgsRef<'tcx>) -> Option<String> {
        let tcx = self.tcx;
        let tenv = TypingEnv::post_analysis(tcx, body.source.def_id());
        // only trait methods need resolution
        if tcx.trait_of_assoc(did).is_none() {
            return None;
        }
        match Instance::try_resolve(tcx, tenv, did, args) {
            Ok(Some(inst)) => {
                let r = inst.def_id();
                if r != did {
                    Some(self.path(r))
                } else {
                    None
                }
            }
            _ => None,
        }
    }

    fn rvalue(&self, body: &Body<'tcx>, r: &Rvalue<'tcx>, s: &mut String) {
        match r {
            Rvalue::Use(o, _) => {
                s.push_str("{\"k\":\"use\",\"o\":");
                self.operand(body, o, s);
                s.push('}');
            }
            Rvalue::Ref(_, bk, p) => {
                let m = matches!(bk, mir::BorrowKind::Mut { .. });
                let _ = write!(s, "{{\"k\":\"ref\",\"m\":{},\"p\":", if m { 1 } else { 0 });
                self.place(body, p, s);
                s.push('}');
            }
            Rvalue::RawPtr(k, p) => {
                let _ = write!(s, "{{\"k\":\"rawptr\",\"m\":{},\"p\":", esc(&format!("{k:?}")));
                self.place(body, p, s);
                s.push('}');
            }
            Rvalue::CopyForDeref(p) => {
                s.push_str("{\"k\":\"use\",\"o\":[\"c\",");
                self.place(body, p, s);
                s.push_str("]}");
            }
            Rvalue::Cast(ck, o, ty) => {
                let ckn = match ck {
                    CastKind::PointerCoercion(pc, _) => format!("Ptr:{pc:?}"),
                    o => format!("{o:?}"),
                };
                let from = o.ty(&body.local_decls, self.tcx);
                let _ = write!(
                    s,
                    "{{\"k\":\"cast\",\"ck\":{},\"from\":{},\"ty\":{},\"o\":",
                    esc(&ckn),
                    esc(&tystr(from)),
                    esc(&tystr(*ty))
                );
                self.operand(body, o, s);
                s.push('}');
            }
            Rvalue::BinaryOp(op, ab) => {
                let _ = write!(s, "{{\"k\":\"bin\",\"op\":{},\"a\":", esc(&format!("{op:?}")));
                self.operand(body, &ab.0, s);
                s.push_str(",\"b\":");
                self.operand(body, &ab.1, s);
                let _ = write!(s, ",\"ty\":{}}}", esc(&tystr(ab.0.ty(&body.local_decls, self.tcx))));
            }
            Rvalue::UnaryOp(op, o) => {
                let _ = write!(s, "{{\"k\":\"un\",\"op\":{},\"o\":", esc(&format!("{op:?}")));
                self.operand(body, o, s);
                s.push('}');
            }
            Rvalue::Discriminant(p) => {
                s.push_str("{\"k\":\"discr\",\"p\":");
                self.place(body, p, s);
                s.push('}');
            }
            Rvalue::Aggregate(ak, ops) => {
                s.push_str("{\"k\":\"agg\",");
                match &**ak {
                    AggregateKind::Adt(did, vi, _, _, _) => {
                        let def = self.tcx.adt_def(*did);
                        let v = def.variant(*vi);
                        let dv = if def.is_enum() {
                            format!("{}", def.discriminant_for_variant(self.tcx, *vi).val)
                        } else {
                            "0".to_string()
                        };
                        let _ = write!(
                            s,
                            "\"ak\":\"adt\",\"adt\":{},\"variant\":{},\"dv\":\"{}\",\"fields\":[",
                            esc(&self.path(*did)),
                            esc(v.name.as_str()),
                            dv
                        );
                        for (i, f) in v.fields.iter().enumerate() {
                            if i > 0 {
                                s.push(',');
                            }
                            s.push_str(&esc(f.name.as_str()));
                        }
                        s.push_str("],");
                    }
                    AggregateKind::Tuple => s.push_str("\"ak\":\"tuple\","),
                    AggregateKind::Array(_) => s.push_str("\"ak\":\"array\","),
                    AggregateKind::Closure(did, _) => {
                        let _ = write!(s, "\"ak\":\"closure\",\"def\":{},", esc(&self.path(*did)));
                    }
                    AggregateKind::Coroutine(did, _) => {
                        let _ = write!(s, "\"ak\":\"coroutine\",\"def\":{},", esc(&self.path(*did)));
                    }
                    AggregateKind::CoroutineClosure(did, _) => {
                        let _ = write!(s, "\"ak\":\"closure\",\"def\":{},", esc(&self.path(*did)));
                    }
                    AggregateKind::RawPtr(..) => s.push_str("\"ak\":\"rawptr\","),
                }
                s.push_str("\"ops\":[");
                for (i, o) in ops.iter().enumerate() {
                    if i > 0 {
                        s.push(',');
                    }
                    self.operand(body, o, s);
                }
                s.push_str("]}");
            }
            Rvalue::Repeat(o, _) => {
                s.push_str("{\"k\":\"repeat\",\"o\":");
                self.operand(body, o, s);
                s.push('}');
            }
            Rvalue::ThreadLocalRef(d) => {
                let _ = write!(s, "{{\"k\":\"tlref\",\"def\":{}}}", esc(&self.path(*d)));
            }
            Rvalue::WrapUnsafeBinder(o, _) => {
                s.push_str("{\"k\":\"use\",\"o\":");
                self.operand(body, o, s);
                s.push('}');
            }
        }
    }

    fn body(&mut self, did: LocalDefId, body: &Body<'tcx>, kind: &str, promoted: Option<usize>) {
        let tcx = self.tcx;
        let mut s = String::with_capacity(4096);
        let mut id = self.path(did.to_def_id());
        if let Some(pi) = promoted {
            id = format!("{id}::promoted[{pi}]");
        }
        let _ = write!(s, "{{\"k\":\"fn\",\"id\":{},\"kind\":{}", esc(&id), esc(kind));
        let sp = tcx.def_span(did);
        let _ = write!(s, ",\"span\":{}", esc(&self.span(sp)));
        if let Some((k, n)) = self.expn(sp) {
            let _ = write!(s, ",\"exp\":[{},{}]", esc(&k), esc(&n));
        }
        // parent for closures
        if tcx.is_closure_like(did.to_def_id()) {
            let p = tcx.parent(did.to_def_id());
            let _ = write!(s, ",\"parent\":{}", esc(&self.path(p)));
        }
        // impl info
        if let Some(imp) = tcx.impl_of_assoc(did.to_def_id()) {
            let _ = write!(s, ",\"impl\":{}", esc(&self.path(imp)));
            if let Some(tr) = tcx.impl_opt_trait_ref(imp) {
                let tr = tr.instantiate_identity().skip_norm_wip();
                let _ = write!(s, ",\"trait\":{}", esc(&self.path(tr.def_id)));
            }
            let st = tcx.type_of(imp).instantiate_identity().skip_norm_wip();
            let _ = write!(s, ",\"self\":{}", esc(&full(st)));
            let _ = write!(s, ",\"name\":{}", esc(tcx.item_name(did.to_def_id()).as_str()));
        } else if matches!(tcx.def_kind(did), DefKind::Fn | DefKind::AssocFn) {
            let _ = write!(s, ",\"name\":{}", esc(tcx.item_name(did.to_def_id()).as_str()));
        }
        let _ = write!(s, ",\"argc\":{}", body.arg_count);
        // locals
        s.push_str(",\"locals\":[");
        for (i, l) in body.local_decls.iter().enumerate() {
            if i > 0 {
                s.push(',');
            }
            s.push_str(&esc(&tystr(l.ty)));
        }
        s.push_str("],\"vars\":{");
        let mut first = true;
        for v in &body.var_debug_info {
            if let mir::VarDebugInfoContents::Place(p) = &v.value {
                if !first {
                    s.push(',');
                }
                first = false;
                let mut ps = String::new();
                self.place(body, p, &mut ps);
                let _ = write!(s, "{}:{}", esc(v.name.as_str()), ps);
            }
        }
        s.push_str("},\"blocks\":[");
        for (bi, bb) in body.basic_blocks.iter().enumerate() {
            if bi > 0 {
                s.push(',');
            }
            self.block(body, bb, &mut s);
        }
        s.push_str("]}\n");
        self.out.push_str(&s);
        self.nfn += 1;
    }

    fn block(&self, body: &Body<'tcx>, bb: &BasicBlockData<'tcx>, s: &mut String) {
        s.push_str("{\"s\":[");
        let mut first = true;
        for st in &bb.statements {
            match &st.kind {
                StatementKind::Assign(b) => {
                    let (p, r) = &**b;
                    if !first {
                        s.push(',');
                    }
                    first = false;
                    s.push_str("{\"p\":");
                    self.place(body, p, s);
                    s.push_str(",\"r\":");
                    self.rvalue(body, r, s);
                    let _ = write!(s, ",\"ln\":{}", self.line(st.source_info.span));
                    if st.source_info.span.from_expansion() {
                        if let Some(m) = self.expn_inner(st.source_info.span) {
                            let _ = write!(s, ",\"x\":{}", esc(&m));
                        }
                    }
                    s.push('}');
                }
                StatementKind::SetDiscriminant { place, variant_index } => {
                    if !first {
                        s.push(',');
                    }
                    first = false;
                    s.push_str("{\"p\":");
                    self.place(body, place, s);
                    let _ = write!(
                        s,
                        ",\"r\":{{\"k\":\"setdiscr\",\"v\":{}}},\"ln\":{}}}",
                        variant_index.as_u32(),
                        self.line(st.source_info.span)
                    );
                }
                _ => {}
            }
        }
        s.push_str("],\"t\":");
        let term = bb.terminator();
        let ln = self.line(term.source_info.span);
        match &term.kind {
            TerminatorKind::Goto { target } => {
                let _ = write!(s, "{{\"t\":\"goto\",\"to\":{}}}", target.as_u32());
            }
            TerminatorKind::SwitchInt { discr, targets } => {
                s.push_str("{\"t\":\"switch\",\"o\":");
                self.operand(body, discr, s);
                s.push_str(",\"vals\":[");
                for (i, (v, _)) in targets.iter().enumerate() {
                    if i > 0 {
                        s.push(',');
                    }
                    let _ = write!(s, "\"{}\"", v);
                }
                s.push_str("],\"tgts\":[");
                for (i, t) in targets.all_targets().iter().enumerate() {
                    if i > 0 {
                        s.push(',');
                    }
                    let _ = write!(s, "{}", t.as_u32());
                }
                let _ = write!(s, "],\"ln\":{}}}", ln);
            }
            TerminatorKind::Return => s.push_str("{\"t\":\"ret\"}"),
            TerminatorKind::Unreachable => s.push_str("{\"t\":\"unreachable\"}"),
            TerminatorKind::UnwindResume => s.push_str("{\"t\":\"resume\"}"),
            TerminatorKind::UnwindTerminate(_) => s.push_str("{\"t\":\"abort\"}"),
            TerminatorKind::Drop { place, target, unwind, .. } => {
                s.push_str("{\"t\":\"drop\",\"p\":");
                self.place(body, place, s);
                let ty = place.ty(&body.local_decls, self.tcx).ty;
                let _ = write!(s, ",\"ty\":{},\"to\":{}", esc(&tystr(ty)), target.as_u32());
                if let mir::UnwindAction::Cleanup(u) = unwind {
                    let _ = write!(s, ",\"unw\":{}", u.as_u32());
                }
                let _ = write!(s, ",\"ln\":{}}}", ln);
            }
            TerminatorKind::Call { func, args, destination, target, unwind, .. } => {
                s.push_str("{\"t\":\"call\"");
                let fty = func.ty(&body.local_decls, self.tcx);
                match fty.kind() {
                    ty::FnDef(did, gargs) => {
                        let _ = write!(s, ",\"f\":{}", esc(&self.path(*did)));
                        if let Some(r) = self.resolve(body, *did, gargs) {
                            let _ = write!(s, ",\"rf\":{}", esc(&r));
                        }
                        // generic args (types only), compact
                        let mut g = String::new();
                        for a in gargs.iter() {
                            if let ty::GenericArgKind::Type(t) = a.kind() {
                                if !g.is_empty() {
                                    g.push_str(", ");
                                }
                                g.push_str(&tystr(t));
                            }
                        }
                        if !g.is_empty() {
                            let _ = write!(s, ",\"g\":{}", esc(&g));
                        }
                    }
                    _ => {
                        s.push_str(",\"fo\":");
                        self.operand(body, func, s);
                        let _ = write!(s, ",\"fty\":{}", esc(&tystr(fty)));
                    }
                }
                s.push_str(",\"args\":[");
                for (i, a) in args.iter().enumerate() {
                    if i > 0 {
                        s.push(',');
                    }
                    self.operand(body, &a.node, s);
                }
                s.push_str("],\"dest\":");
                self.place(body, destination, s);
                if let Some(t) = target {
                    let _ = write!(s, ",\"to\":{}", t.as_u32());
                }
                if let mir::UnwindAction::Cleanup(u) = unwind {
                    let _ = write!(s, ",\"unw\":{}", u.as_u32());
                }
                let _ = write!(s, ",\"ln\":{}", ln);
                if term.source_info.span.from_expansion() {
                    if let Some(m) = self.expn_inner(term.source_info.span) {
                        let _ = write!(s, ",\"x\":{}", esc(&m));
                    }
                }
                s.push('}');
            }
            TerminatorKind::TailCall { .. } => s.push_str("{\"t\":\"tailcall\"}"),
            TerminatorKind::Assert { cond, expected, msg, target, unwind } => {
                let (kind, ops): (String, Vec<&Operand<'tcx>>) = match &**msg {
                    AssertKind::BoundsCheck { len, index } => ("BoundsCheck".into(), vec![len, index]),
                    AssertKind::Overflow(op, a, b) => (format!("Overflow({op:?})"), vec![a, b]),
                    AssertKind::OverflowNeg(a) => ("OverflowNeg".into(), vec![a]),
                    AssertKind::DivisionByZero(a) => ("DivisionByZero".into(), vec![a]),
                    AssertKind::RemainderByZero(a) => ("RemainderByZero".into(), vec![a]),
                    AssertKind::MisalignedPointerDereference { .. } => ("Misaligned".into(), vec![]),
                    AssertKind::NullPointerDereference => ("NullDeref".into(), vec![]),
                    AssertKind::InvalidEnumConstruction(_) => ("InvalidEnum".into(), vec![]),
                    _ => ("Other".into(), vec![]),
                };
                let _ = write!(s, "{{\"t\":\"assert\",\"kind\":{},\"exp\":{},\"cond\":", esc(&kind), expected);
                self.operand(body, cond, s);
                s.push_str(",\"ops\":[");
                for (i, o) in ops.iter().enumerate() {
                    if i > 0 {
                        s.push(',');
                    }
                    self.operand(body, o, s);
                }
                let _ = write!(s, "],\"to\":{}", target.as_u32());
                if let mir::UnwindAction::Cleanup(u) = unwind {
                    let _ = write!(s, ",\"unw\":{}", u.as_u32());
                }
                let _ = write!(s, ",\"ln\":{}}}", ln);
            }
            TerminatorKind::Yield { resume, .. } => {
                let _ = write!(s, "{{\"t\":\"yield\",\"to\":{}}}", resume.as_u32());
            }
            TerminatorKind::CoroutineDrop => s.push_str("{\"t\":\"ret\"}"),
            TerminatorKind::FalseEdge { real_target, .. } => {
                let _ = write!(s, "{{\"t\":\"goto\",\"to\":{}}}", real_target.as_u32());
            }
            TerminatorKind::FalseUnwind { real_target, .. } => {
                let _ = write!(s, "{{\"t\":\"goto\",\"to\":{}}}", real_target.as_u32());
            }
            TerminatorKind::InlineAsm { .. } => s.push_str("{\"t\":\"asm\"}"),
        }
        if bb.is_cleanup {
            s.push_str(",\"c\":1");
        }
        s.push('}');
    }
}

fn main() {
    let mut args: Vec<String> = std::env::args().collect();
    // RUSTC_WORKSPACE_WRAPPER: argv[1] is the real rustc path
    if args.len() > 1 && (args[1].ends_with("rustc") || args[1].contains("/rustc")) {
        args.remove(1);
    }
    let mut cb = Cb;
    rustc_driver::run_compiler(&args, &mut cb);
}
